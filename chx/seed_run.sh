#!/bin/sh
# usage: seed_run.sh <seeded name> <PROP> [tier] [extra run.py args]  - applies the seeded change to /repo, runs the check, undoes it
NAME=$1; PROP=$2; TIER=${3:-quick}; shift; shift; shift 2>/dev/null || true
cd /repo && git diff --quiet || { echo "/repo dirty"; exit 9; }
git -C /repo apply /verif/seeded/$NAME/patch.diff || exit 9
mkdir -p /tmp/seedev; cp /verif/evidence/$PROP.json /tmp/seedev/$PROP.json.keep 2>/dev/null
cd /verif && ./check $PROP $TIER "$@" > /tmp/seedev/$NAME-$PROP.out 2>&1; RC=$?
git -C /repo checkout -- .
cp /verif/evidence/$PROP.json /tmp/seedev/$NAME-$PROP.evidence.json 2>/dev/null
cp /tmp/seedev/$PROP.json.keep /verif/evidence/$PROP.json 2>/dev/null
rm -f /verif/evidence/replays/$PROP-*.json
echo "== $NAME vs $PROP ($TIER): exit $RC; $(grep -c '^VIOLATION' /tmp/seedev/$NAME-$PROP.out) VIOLATION lines"
grep -m3 -A1 '^VIOLATION' /tmp/seedev/$NAME-$PROP.out | cut -c1-400
grep -m3 'HARNESS-PROBLEM' /tmp/seedev/$NAME-$PROP.out | cut -c1-400
