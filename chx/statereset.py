"""Process-global state of the curtsies modules: snapshot and reset.

The properties quantify over inputs (and histories given explicitly by a harness); the library keeps no
module-level state of its own on the pinned tree.  A change that adds one (a memo table, a pattern cache ...)
makes results depend on what the same process computed before.  To keep that visible and replayable:

  * the worker snapshots every module-level / class-level dict, list and set of the curtsies modules (and
    clears functools caches) after the harness was set up, and restores them at the start of EVERY execution
    path, so a path is a function of its inputs only (without this CrossHair reports NotDeterministic);
  * 'pair' / 'history' harness families perform several calls inside ONE path, so state carried from the
    first call to the second is part of the explored behaviour, and a counterexample replays from a clean state;
  * the concrete twins are replayed from the same clean state;
  * whatever was found changed is reported in the evidence notes.
"""
import sys

_SNAP = []          # (label, container, shallow copy)
_CACHES = []        # (label, function with cache_clear)
CHANGED = set()


def _scan():
    seen = set()
    out, caches = [], []

    def add(label, v):
        if id(v) in seen:
            return
        seen.add(id(v))
        out.append((label, v))

    for name, mod in sorted(sys.modules.items()):
        if mod is None or not (name == "curtsies" or name.startswith("curtsies.")):
            continue
        for k, v in list(vars(mod).items()):
            if k.startswith("__"):
                continue
            if type(v) in (dict, list, set):
                add(name + "." + k, v)
            elif isinstance(v, type) and getattr(v, "__module__", None) == name:
                for ck, cv in list(vars(v).items()):
                    if ck.startswith("__"):
                        continue
                    if type(cv) in (dict, list, set):
                        add("%s.%s.%s" % (name, k, ck), cv)
                    elif hasattr(cv, "cache_clear") and hasattr(cv, "cache_info"):
                        caches.append(("%s.%s.%s" % (name, k, ck), cv))
            elif hasattr(v, "cache_clear") and hasattr(v, "cache_info"):
                caches.append((name + "." + k, v))
    return out, caches


def snapshot():
    conts, caches = _scan()
    _SNAP[:] = [(label, v, (dict(v) if type(v) is dict else (list(v) if type(v) is list else set(v)))) for label, v in conts]
    _CACHES[:] = caches


def reset():
    """restore the snapshot in place; returns the labels that had changed"""
    changed = []
    for label, v, copy in _SNAP:
        try:
            same = (len(v) == len(copy)) and (v == copy)
        except Exception:      # noqa
            same = False
        if not same:
            changed.append(label)
            if type(v) is list:
                v[:] = copy
            else:
                v.clear()
                v.update(copy)
    for label, fn in _CACHES:
        try:
            if fn.cache_info().currsize:
                changed.append(label)
                fn.cache_clear()
        except Exception:      # noqa
            pass
    CHANGED.update(changed)
    return changed
