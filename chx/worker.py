"""One instance = one process: analyse one harness function with CrossHair (z3 decides
every branch and the final assertion), print one JSON record on the last stdout line.

usage: worker.py <harness module> <function> <per_condition_timeout> <params-json> <excluded,regions> <witness 0|1>
"""
import collections
import importlib
import json
import os
import sys
import time

HERE = os.path.dirname(os.path.abspath(__file__))
sys.path.insert(0, os.path.dirname(HERE))


def main():
    modname, fn, tmo, params_json, excluded, witness = sys.argv[1:7]
    tmo = float(tmo)
    params = json.loads(params_json)
    excluded = [x for x in excluded.split(",") if x]
    witness = witness == "1"
    t0 = time.perf_counter()
    from chx import prelude
    prelude.install()
    from crosshair.core_and_libs import analyze_function, run_checkables
    from crosshair.options import AnalysisKind, AnalysisOptionSet
    from chx import hsupport
    hsupport.configure(params, excluded, witness)
    mod = importlib.import_module("chx.harness." + modname)
    if hasattr(mod, "setup"):
        mod.setup(params)
    # every execution path starts from the same module-level state of the library (see chx/statereset.py)
    from chx import statereset
    from crosshair import statespace
    statereset.snapshot()
    _orig_init = statespace.StateSpace.__init__

    def _init(self, *a, **kw):
        statereset.reset()
        _orig_init(self, *a, **kw)

    statespace.StateSpace.__init__ = _init
    stats = collections.Counter()
    opts = AnalysisOptionSet(
        per_condition_timeout=tmo,
        per_path_timeout=max(30.0, tmo / 4),
        report_all=True,
        stats=stats,
        analysis_kind=[AnalysisKind.PEP316],
        max_uninteresting_iterations=sys.maxsize,
    )
    t1 = time.perf_counter()
    msgs = run_checkables(analyze_function(getattr(mod, fn), opts))
    t2 = time.perf_counter()
    rec = {
        "fn": fn,
        "params": params,
        "witness": witness,
        "messages": [
            {"state": m.state.name, "message": m.message, "line": m.line} for m in msgs
        ],
        "paths": stats.get("num_paths", 0),
        "stats": {k: v for k, v in stats.items() if isinstance(v, (int, float))},
        "z3_checks": prelude.Z3_STATS["checks"],
        "z3_seconds": round(prelude.Z3_STATS["seconds"], 3),
        "z3_sat": prelude.Z3_STATS["sat"],
        "z3_unsat": prelude.Z3_STATS["unsat"],
        "z3_unknown": prelude.Z3_STATS["unknown"],
        "analysis_s": round(t2 - t1, 3),
        "wall_s": round(t2 - t0, 3),
        "notes": hsupport.NOTES[:20] + _unsupported() + ["library module state changed during a call: " + x for x in sorted(statereset.CHANGED)],
    }
    sys.stdout.write("\n@@RESULT@@" + json.dumps(rec) + "\n")
    sys.stdout.flush()


def _unsupported():
    from chx.domains import segstr
    return ["unsupported: " + str(x) for x in segstr.UNSUPPORTED_LOG]


if __name__ == "__main__":
    main()
