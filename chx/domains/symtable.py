"""SymTable: the live key tables wrapped so that `seq in TABLE` is ONE z3 disjunction over the
symbolic bytes instead of a hash-forced concretisation of the key.

Built from the live dict / set of the imported curtsies.events module, so the table contents
(including KEYMAP_PREFIXES, computed by curtsies at import) are whatever the current tree
produced.  `TABLE[seq]` returns a Name token that the oracle compares structurally."""
import z3
from crosshair.core import realize
from crosshair.libimpl.builtinslib import SymbolicBool, SymbolicInt
from crosshair.tracers import NoTracing, ResumedTracing


def zi(x):
    if isinstance(x, SymbolicInt):
        return x.var
    if isinstance(x, z3.ExprRef):
        return x
    return z3.IntVal(int(x))


class Name:
    """result of a symbolic table look-up: which table, which (symbolic) key"""

    def __init__(self, table, key):
        self.table = table
        self.key = key

    def __repr__(self):
        return "<name from %s>" % self.table


def byte_terms(key):
    """list of z3 Int terms, one per byte of a (symbolic or concrete) bytes value; length is
    concrete per path"""
    if isinstance(key, (bytes, bytearray)):
        return [z3.IntVal(b) for b in key]
    with ResumedTracing():
        n = len(key)
    n = realize(n)
    out = []
    for i in range(n):
        with ResumedTracing():
            v = key[i]
        out.append(zi(v))
    return out


def member_term(bylen, terms):
    n = len(terms)
    alts = []
    for k in bylen.get(n, ()):
        alts.append(z3.And(*[terms[i] == k[i] for i in range(n)]) if n else z3.BoolVal(True))
    return z3.Or(*alts) if alts else z3.BoolVal(False)


def index_by_len(keys):
    bylen = {}
    for k in keys:
        bylen.setdefault(len(k), []).append(bytes(k))
    return bylen


class SymTable:
    def __init__(self, data, name):
        self.data = data
        self.name = name
        self.bylen = index_by_len(data)

    def __contains__(self, key):
        with NoTracing():
            if isinstance(key, (bytes, bytearray)):
                return bytes(key) in self.data
            r = SymbolicBool(member_term(self.bylen, byte_terms(key)))
        return bool(r)

    def __getitem__(self, key):
        with NoTracing():
            # always a token (also for a concrete key: CrossHair sometimes realises arguments prematurely)
            return Name(self.name, key)

    def get(self, key, default=None):
        if key in self:
            return self[key]
        return default

    def keys(self):
        return self.data.keys()

    def items(self):
        return self.data.items()

    def values(self):
        return self.data.values()

    def __iter__(self):
        return iter(self.data)

    def __len__(self):
        return len(self.data)
