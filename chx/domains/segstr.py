"""SegStr: a length-abstract symbolic ``str`` for CrossHair (pure linear integer arithmetic).

A value is a list of segments ``(src, lo, hi)`` with ``lo <= hi`` z3 Int terms:

* ``src`` an ``int >= 0``  -> symbolic text source ``T_src``: characters are pairwise
  unrelated atoms ``(src, k)``; stands for ANY text of that length that contains no
  ESC / 0x9b (the only characters the code under test looks for in such strings);
* ``src = ('L', text)``    -> a concrete literal (escape codes, separators, ...);
* ``src = SPACE_SRC``      -> the infinite string of ' ' (``" " * n``).

Slicing, concatenation, len, truthiness are closed-form LIA terms: run lengths and
indices stay UNBOUNDED symbolic integers.  Anything that would need to look at the
characters of a symbolic source aborts the path (CrossHairInternal -> the instance can
at best end CANNOT_CONFIRM, never silently true).

Oracle support: ``atom_at(p)`` gives the p-th character as a pair of z3 Ints:
``(src, idx)`` for a symbolic source, ``(LIT, codepoint)`` for literal/space characters,
``(OUT, OUT)`` when p is out of range.
"""
import z3
from crosshair.libimpl.builtinslib import AnySymbolicStr, SymbolicInt, SymbolicBool
from crosshair.core import CrossHairValue, realize
from crosshair.tracers import NoTracing, ResumedTracing
from crosshair.util import CrossHairInternal, UnexploredPath

SPACE_SRC = -1
LIT = -1      # first component of the atom of a literal character
OUT = -99


UNSUPPORTED_LOG = []


class Unsupported(UnexploredPath):
    """the operation would have to look at the characters of an abstract text: the path is
    abandoned as UNKNOWN (the instance can then at best end CANNOT_CONFIRM)"""

    def __init__(self, *a):
        UnexploredPath.__init__(self, *a)
        if len(UNSUPPORTED_LOG) < 20 and a and a[0] not in UNSUPPORTED_LOG:
            UNSUPPORTED_LOG.append(a[0])


def zint(x):
    """z3 Int term of a python int / SymbolicInt / z3 term"""
    if isinstance(x, SymbolicInt):
        return x.var
    if isinstance(x, bool):
        return z3.IntVal(int(x))
    if isinstance(x, int):
        return z3.IntVal(x)
    if isinstance(x, z3.ExprRef):
        return x
    if hasattr(x, "__index__"):
        with ResumedTracing():
            v = x.__index__()
        return zint(v)
    raise TypeError(type(x))


def _norm_index(i, ln):
    """python slice-bound normalisation: negative counts from the end, clamp to [0, ln]"""
    return z3.If(i < 0, z3.If(i + ln < 0, z3.IntVal(0), i + ln), z3.If(i > ln, ln, i))


def _clamp0(i, n):
    return z3.If(i < 0, z3.IntVal(0), z3.If(i > n, n, i))


def _lit(s):
    if s == "":
        return []
    if set(s) == {" "}:
        return [(SPACE_SRC, z3.IntVal(0), z3.IntVal(len(s)))]
    return [(("L", s), z3.IntVal(0), z3.IntVal(len(s)))]


def _is_plain_str(x):
    return isinstance(x, str) and not isinstance(x, CrossHairValue)


class SegStr(AnySymbolicStr, CrossHairValue):
    def __init__(self, segs):
        self._segs = list(segs)

    # ---- construction -------------------------------------------------
    @classmethod
    def source(cls, sid, n):
        with NoTracing():
            return cls([(sid, z3.IntVal(0), zint(n))])

    @classmethod
    def literal(cls, s):
        with NoTracing():
            return cls(_lit(s))

    @classmethod
    def spaces(cls, n):
        with NoTracing():
            n = zint(n)
            return cls([(SPACE_SRC, z3.IntVal(0), z3.If(n > 0, n, z3.IntVal(0)))])

    # ---- basic protocol -----------------------------------------------
    def _zlen(self):
        t = z3.IntVal(0)
        for _, lo, hi in self._segs:
            t = t + (hi - lo)
        return z3.simplify(t)

    def __len__(self):
        with NoTracing():
            return SymbolicInt(self._zlen())

    def __bool__(self):
        with NoTracing():
            b = SymbolicBool(self._zlen() > 0)
        return b.__bool__()

    def __ch_realize__(self):
        # used only when CrossHair prints a counterexample / something forces realisation
        out = []
        for sid, lo, hi in self._segs:
            lo_c = realize(SymbolicInt(lo))
            hi_c = realize(SymbolicInt(hi))
            for k in range(lo_c, hi_c):
                if sid == SPACE_SRC:
                    out.append(" ")
                elif isinstance(sid, tuple):
                    out.append(sid[1][k])
                else:
                    out.append(src_char(sid, k))
        return "".join(out)

    def __ch_pytype__(self):
        return str

    def __repr__(self):
        return repr(self.__ch_realize__())

    def __str__(self):
        return self

    def __getitem__(self, i):
        with NoTracing():
            if isinstance(i, slice):
                if i.step is not None:
                    with ResumedTracing():
                        one = i.step == 1
                    if not one:
                        raise Unsupported("SegStr: slice step")
                ln = self._zlen()
                a = z3.IntVal(0) if i.start is None else _norm_index(zint(i.start), ln)
                b = ln if i.stop is None else _norm_index(zint(i.stop), ln)
                off = z3.IntVal(0)
                segs = []
                for sid, lo, hi in self._segs:
                    n = hi - lo
                    nlo = lo + _clamp0(a - off, n)
                    nhi = lo + _clamp0(b - off, n)
                    nhi = z3.If(nhi > nlo, nhi, nlo)
                    segs.append((sid, z3.simplify(nlo), z3.simplify(nhi)))
                    off = off + n
                return SegStr(segs)
            # integer index: fork on range, return 1-char slice
            ln = self._zlen()
            iz = zint(i)
            inrange = SymbolicBool(z3.And(iz >= -ln, iz < ln))
        if not inrange:
            raise IndexError("string index out of range")
        with NoTracing():
            j = z3.If(iz < 0, iz + ln, iz)
            return self[slice(SymbolicInt(j), SymbolicInt(j + 1), None)]

    def __add__(self, other):
        with NoTracing():
            if isinstance(other, SegStr):
                return SegStr(self._segs + other._segs)
            if _is_plain_str(other):
                return SegStr(self._segs + _lit(other))
        return NotImplemented

    def __radd__(self, other):
        with NoTracing():
            if isinstance(other, SegStr):
                return SegStr(other._segs + self._segs)
            if _is_plain_str(other):
                return SegStr(_lit(other) + self._segs)
        return NotImplemented

    def __mul__(self, k):
        with NoTracing():
            if isinstance(k, int) and not isinstance(k, CrossHairValue):
                return SegStr(self._segs * max(k, 0))
        raise Unsupported("SegStr: * symbolic count")

    __rmul__ = __mul__

    def __contains__(self, needle):
        with NoTracing():
            if _is_plain_str(needle):
                if needle == "":
                    return True
                if "\x1b" in needle or "\x9b" in needle:
                    # alphabet assumption: symbolic sources and spaces hold no ESC / CSI;
                    # literals are inspected concretely (a needle spanning two adjacent
                    # literal segments is looked for in their concatenation)
                    buf = ""
                    for sid, lo, hi in self._segs:
                        if isinstance(sid, tuple):
                            lo_c = z3.simplify(lo)
                            hi_c = z3.simplify(hi)
                            if not (z3.is_int_value(lo_c) and z3.is_int_value(hi_c)):
                                raise Unsupported("SegStr: contains on sliced literal")
                            buf += sid[1][lo_c.as_long():hi_c.as_long()]
                        else:
                            if needle in buf:
                                return True
                            buf = ""
                    return needle in buf
        raise Unsupported("SegStr: contains")

    def __eq__(self, other):
        with NoTracing():
            if _is_plain_str(other) and other == "":
                b = SymbolicBool(self._zlen() == 0)
            elif isinstance(other, SegStr) and other is self:
                return True
            else:
                b = None
        if b is None:
            raise Unsupported("SegStr: == on characters")
        return b

    def __ne__(self, other):
        r = self.__eq__(other)
        return not r

    def __hash__(self):
        raise Unsupported("SegStr: hash")

    def __iter__(self):
        raise Unsupported("SegStr: iteration over characters")

    def __format__(self, spec):
        with NoTracing():
            if _is_plain_str(spec) and spec == "":
                return self
        raise Unsupported("SegStr: format spec")

    def __getattr__(self, name):
        # str methods that would look at characters
        if name.startswith("__"):
            raise AttributeError(name)
        raise Unsupported("SegStr: str.%s" % name)

    # ---- oracle support -------------------------------------------------
    def atom_at(self, p):
        """(a, b) z3 Int terms identifying the p-th character (see module docstring)"""
        p = zint(p)
        a = z3.IntVal(OUT)
        b = z3.IntVal(OUT)
        off = z3.IntVal(0)
        conds = []
        for sid, lo, hi in self._segs:
            n = hi - lo
            k = lo + (p - off)
            if sid == SPACE_SRC:
                aa, bb = z3.IntVal(LIT), z3.IntVal(32)
            elif isinstance(sid, tuple):
                aa = z3.IntVal(LIT)
                bb = z3.IntVal(OUT)
                for j, ch in enumerate(sid[1]):
                    bb = z3.If(k == j, z3.IntVal(ord(ch)), bb)
            else:
                aa, bb = z3.IntVal(sid), k
            conds.append((z3.And(p >= off, p < off + n), aa, bb))
            off = off + n
        for c, aa, bb in reversed(conds):
            a = z3.If(c, aa, a)
            b = z3.If(c, bb, b)
        return a, b


def src_char(sid, k):
    """concrete character used when a symbolic source is realised for a counterexample /
    by the concrete twins: distinct sources use distinct letters so provenance is visible"""
    base = "abcdefghijklmnopqrstuvwxyz"
    return base[(sid * 7 + k) % 26] if sid % 2 == 0 else base[(sid * 7 + k) % 26].upper()


def src_text(sid, n):
    return "".join(src_char(sid, k) for k in range(n))


def install_space_mul():
    """`" " * n` / `n * " "` with a symbolic n -> SegStr of spaces (engine patch 3)"""
    from crosshair.libimpl import builtinslib as bl
    if getattr(bl.SymbolicIntable, "_verif_mul", False):
        return
    _orig_mul = bl.SymbolicIntable.__mul__
    _orig_rmul = bl.SymbolicIntable.__rmul__

    def _mul(self, other):
        with NoTracing():
            if type(other) is str and other == " ":
                return SegStr.spaces(self)
        return _orig_mul(self, other)

    def _rmul(self, other):
        with NoTracing():
            if type(other) is str and other == " ":
                return SegStr.spaces(self)
        return _orig_rmul(self, other)

    bl.SymbolicIntable.__mul__ = _mul
    bl.SymbolicIntable.__rmul__ = _rmul
    bl.SymbolicIntable._verif_mul = True
