"""OS model: environment stub for curtsies.input / curtsies.termhelpers (and the Cbreak used by
curtsies.window).  It replaces, inside those modules only, the names termios, tty, fcntl, signal,
os, select, time, threading and getpreferredencoding by objects that act on an explicit state:

  * per-fd tty attribute vector and file status flags,
  * SIGINT disposition and the signal wake-up fd,
  * the fd table (os.pipe / os.close) and pipe buffers,
  * pending input bytes on the tty, a monotone clock,
  * a schedule: actions that fire INSIDE a blocked select (bytes arriving, a trigger callback, a SIGINT),
  * a crash point: the k-th model call raises a chosen exception.

Every function follows the documented contract of the real one (return the old handler / old
wake-up fd, EBADF on closed fds, BlockingIOError on an empty non-blocking read, select returning
the ready subset or [] after the timeout with the clock advanced ...).  Concrete twins run the same
scenario against the real OS on a pty wherever it is expressible there.
"""
import types

O_NONBLOCK = 0o4000
F_GETFL, F_SETFL = 3, 4
ECHO, ICANON = 0o10, 0o2
LFLAG, CC = 3, 6
VMIN, VTIME, VSTART, VSTOP, VSUSP = 6, 5, 8, 9, 10
TCSANOW = 0
SIGINT = 2


class Crash(Exception):
    """the injected ordinary exception"""


class OtherThread:
    """a second REAL thread whose execution is serialised with the main thread by hand-offs: it runs only while the
    main thread waits inside the model (a blocked select, or the harness between two requests), and it can be made to
    pause right after one of its own model calls (a preemption point: the thread was descheduled there)."""

    def __init__(self, fn):
        import threading
        self.fn = fn
        self.to_t2 = threading.Semaphore(0)
        self.to_main = threading.Semaphore(0)
        self.done = False
        self.started = False
        self.exc = None
        self.thread = threading.Thread(target=self._run, daemon=True)

    def _run(self):
        self.to_t2.acquire()
        try:
            self.fn()
        except BaseException as ex:      # noqa - reported to the main thread
            self.exc = ex
        finally:
            self.done = True
            self.to_main.release()

    def resume(self):
        """(main thread) let the other thread run until it pauses or finishes"""
        if self.done:
            return
        if not self.started:
            self.started = True
            self.thread.start()
        self.to_t2.release()
        if not self.to_main.acquire(timeout=20):
            raise RuntimeError("model: the other thread neither paused nor finished")
        if self.done and self.exc is not None:
            ex, self.exc = self.exc, None
            raise ex

    def pause(self):
        """(other thread) hand control back to the main thread until resumed"""
        self.to_main.release()
        self.to_t2.acquire()


class OS:
    def __init__(self, tty_fd=0, attrs=None, flags=2, sigint="default", wakeup=-1):
        self.tty_fd = tty_fd
        self.attrs = {tty_fd: attrs or [0x500, 5, 0xbf, 0x8a3b, 15, 15, [b"\x03", b"\x1c", b"\x7f", b"\x15", b"\x04", 0, 1, b"\x00", b"\x11", b"\x13", b"\x1a"] + [b"\x00"] * 21]}
        self.flags = {tty_fd: flags}
        self.sigint = sigint
        self.wakeup = wakeup
        self.open_fds = {0, 1, 2, tty_fd} | ({wakeup} if wakeup >= 0 else set())
        self.next_fd = 10
        self.pipes = {}            # read fd -> bytearray ; write fd -> read fd
        self.wpipe = {}
        self.tty_in = bytearray()  # bytes typed on the tty, not yet read
        self.clock = 1000.0
        self.calls = 0
        self.crash_at = None       # (k, exception instance)
        self.armed = False
        self.schedule = []         # actions fired inside select, in order: callables(os) -> None
        self.log = []
        self.nonblock_between = False     # set when the tty is left non-blocking outside a read
        self.main_thread = True
        self.blocked_selects = 0
        self.eof = False
        self.crash_skipped = False
        self.other = None          # an OtherThread in flight
        self.preempt_after_write = False

    # ---- bookkeeping
    def tick(self, what):
        self.calls += 1
        self.log.append(what)
        if self.armed and self.crash_at is not None and self.calls == self.crash_at[0]:
            # the injected exception stands for one raised inside the BODY of a context (an error of a body operation,
            # a KeyboardInterrupt while a request waits or reads); a failure of a context manager's own enter / exit
            # step (the restoring call itself raising) is not what the property is about
            import sys
            f = sys._getframe(1)
            while f is not None:
                if f.f_code.co_name in ("__enter__", "__exit__") and "/curtsies/" in f.f_code.co_filename:
                    self.crash_skipped = True
                    return
                f = f.f_back
            raise self.crash_at[1]

    def snapshot(self):
        a = self.attrs[self.tty_fd]
        return {"attrs": [x if not isinstance(x, list) else list(x) for x in a], "flags": self.flags[self.tty_fd],
                "sigint": self.sigint, "wakeup": self.wakeup, "fds": set(self.open_fds)}

    def _fd(self, f):
        fd = f if isinstance(f, int) else f.fileno()
        if fd not in self.open_fds:
            raise OSError(9, "Bad file descriptor")
        return fd


class FakeStream:
    """a text stream object standing for the tty (sys.stdin-like)"""
    encoding = "utf8"

    def __init__(self, fd):
        self._fd = fd

    def fileno(self):
        return self._fd


class ModelGap(BaseException):
    """the code under test called an OS function the model does not implement (a harness limitation, never a verdict:
    BaseException so that no `except Exception` of the code under test or of a harness turns it into one)"""


class ModelModule:
    """stands for a real module: modelled functions are attributes set on the instance, constants and exception classes
    (ints, bytes, str, tuples, types) pass through from the real module, any other callable is a gap in the model"""

    _PURE = {"default_int_handler", "strsignal", "Signals", "Handlers", "fspath", "fsencode", "fsdecode", "strerror"}

    def __init__(self, real, **names):
        self.__dict__["_real"] = real
        self.__dict__.update(names)

    def __getattr__(self, name):
        real = self.__dict__["_real"]
        v = getattr(real, name)          # AttributeError as on the real module
        if isinstance(v, (int, float, bytes, str, tuple, frozenset, type)) or name in self._PURE:
            return v
        raise ModelGap("model: %s.%s is not modelled" % (real.__name__, name))


def make_modules(m):
    """the replacement module objects bound to OS state `m`"""
    import termios as _termios, tty as _tty, fcntl as _fcntl, signal as _signal, os as _os, select as _select, time as _time
    termios = ModelModule(_termios, error=OSError)

    def tcgetattr(f):
        m.tick("tcgetattr")
        fd = m._fd(f)
        a = m.attrs[fd]
        return [x if not isinstance(x, list) else list(x) for x in a]

    def tcsetattr(f, when, attrs):
        m.tick("tcsetattr")
        fd = m._fd(f)
        m.attrs[fd] = [x if not isinstance(x, list) else list(x) for x in attrs]

    termios.tcgetattr, termios.tcsetattr = tcgetattr, tcsetattr
    termios.tcdrain = lambda f: m._fd(f) and None
    termios.tcflush = lambda f, q: m._fd(f) and None
    termios.tcflow = lambda f, a: m._fd(f) and None

    def setcbreak(f, when=TCSANOW):
        m.tick("setcbreak")
        fd = m._fd(f)
        old = [x if not isinstance(x, list) else list(x) for x in m.attrs[fd]]
        new = [x if not isinstance(x, list) else list(x) for x in old]
        new[LFLAG] &= ~(ECHO | ICANON)
        new[CC][VMIN] = 1
        new[CC][VTIME] = 0
        m.attrs[fd] = new
        return old

    def setraw(f, when=TCSANOW):
        m.tick("setraw")
        fd = m._fd(f)
        old = [x if not isinstance(x, list) else list(x) for x in m.attrs[fd]]
        new = [x if not isinstance(x, list) else list(x) for x in old]
        new[0] &= ~(_termios.BRKINT | _termios.ICRNL | _termios.INPCK | _termios.ISTRIP | _termios.IXON)
        new[1] &= ~_termios.OPOST
        new[2] = (new[2] & ~(_termios.CSIZE | _termios.PARENB)) | _termios.CS8
        new[LFLAG] &= ~(_termios.ECHO | _termios.ICANON | _termios.IEXTEN | _termios.ISIG)
        new[CC][VMIN] = 1
        new[CC][VTIME] = 0
        m.attrs[fd] = new
        return old

    tty = ModelModule(_tty, setcbreak=setcbreak, setraw=setraw)

    def fcntl_(fd, cmd, arg=0):
        m.tick("fcntl")
        fd = m._fd(fd)
        if cmd == F_GETFL:
            return m.flags.setdefault(fd, 2)
        if cmd == F_SETFL:
            m.flags[fd] = arg
            return 0
        raise OSError(22, "unsupported fcntl")

    fcntl = ModelModule(_fcntl, fcntl=fcntl_)

    # ---- signal
    def signal_(signum, handler):
        m.tick("signal")
        if not m.main_thread:
            raise ValueError("signal only works in main thread of the main interpreter")
        old = m.sigint
        m.sigint = handler
        return old

    def getsignal(signum):
        m.tick("getsignal")
        return m.sigint

    def set_wakeup_fd(fd, *, warn_on_full_buffer=True):
        m.tick("set_wakeup_fd")
        if not m.main_thread:
            raise ValueError("set_wakeup_fd only works in main thread of the main interpreter")
        if fd != -1 and fd not in m.open_fds:
            raise OSError(9, "Bad file descriptor")
        old = m.wakeup
        m.wakeup = fd
        return old

    signal = ModelModule(_signal, signal=signal_, getsignal=getsignal, set_wakeup_fd=set_wakeup_fd, SIG_DFL=0, SIG_IGN=1)

    # ---- os
    def pipe():
        m.tick("pipe")
        r, w = m.next_fd, m.next_fd + 1
        m.next_fd += 2
        m.open_fds |= {r, w}
        m.pipes[r] = bytearray()
        m.wpipe[w] = r
        m.flags[r] = 0
        m.flags[w] = 1
        return r, w

    def close(fd):
        m.tick("close")
        if fd not in m.open_fds:
            raise OSError(9, "Bad file descriptor")
        m.open_fds.discard(fd)

    def set_blocking(fd, blocking):
        m.tick("set_blocking")
        fd = m._fd(fd)
        if blocking:
            m.flags[fd] = m.flags.get(fd, 0) & ~O_NONBLOCK
        else:
            m.flags[fd] = m.flags.get(fd, 0) | O_NONBLOCK

    def read(fd, n):
        m.tick("read")
        fd = m._fd(fd)
        if fd == m.tty_fd:
            if not m.tty_in:
                if m.flags[fd] & O_NONBLOCK:
                    raise BlockingIOError(11, "Resource temporarily unavailable")
                raise RuntimeError("model: blocking read on an empty tty would hang")
            data = bytes(m.tty_in[:n])
            del m.tty_in[:n]
            return data
        buf = m.pipes.get(fd)
        if buf is None:
            raise OSError(9, "Bad file descriptor")
        if not buf:
            if m.flags.get(fd, 0) & O_NONBLOCK:
                raise BlockingIOError(11, "Resource temporarily unavailable")
            raise RuntimeError("model: blocking read on an empty pipe would hang")
        data = bytes(buf[:n])
        del buf[:n]
        return data

    def write(fd, data):
        m.tick("write")
        fd = m._fd(fd)
        r = m.wpipe.get(fd)
        if r is None:
            raise OSError(9, "Bad file descriptor")
        m.pipes[r].extend(data)
        o = m.other
        if o is not None and m.preempt_after_write and not o.done:
            import threading
            if threading.current_thread() is o.thread:
                o.pause()            # descheduled right after the write: whoever waits on the pipe runs first
        return len(data)

    def get_blocking(fd):
        m.tick("get_blocking")
        fd = m._fd(fd)
        return not (m.flags.get(fd, 0) & O_NONBLOCK)

    def isatty(fd):
        return fd == m.tty_fd and fd in m.open_fds

    os_ = ModelModule(_os, pipe=pipe, close=close, set_blocking=set_blocking, get_blocking=get_blocking, read=read, write=write,
                      isatty=isatty, environ=_os.environ, getpid=_os.getpid)

    # ---- select / time
    def ready(rlist):
        out = []
        for fd in rlist:
            if fd == m.tty_fd:
                if m.tty_in or m.eof:
                    out.append(fd)
            elif m.pipes.get(fd):
                out.append(fd)
        return out

    def select_(rlist, wlist, xlist, timeout=None):
        m.tick("select")
        for fd in rlist:
            if fd not in m.open_fds:
                raise OSError(9, "Bad file descriptor")
        if m.flags[m.tty_fd] & O_NONBLOCK:
            m.nonblock_between = True
        rs = ready(rlist)
        if rs:
            return rs, [], []
        if timeout is not None and timeout <= 0:
            return [], [], []
        # blocked: a paused other thread gets the processor first, then things scheduled to happen while we wait
        # happen, one at a time
        m.blocked_selects += 1
        if m.other is not None and not m.other.done:
            m.other.resume()
            rs = ready(rlist)
            if rs:
                return rs, [], []
        deadline = None if timeout is None else m.clock + timeout
        while m.schedule:
            when, action = m.schedule[0]
            if deadline is not None and when > deadline:
                break
            m.schedule.pop(0)
            if when > m.clock:
                m.clock = when
            action(m)
            rs = ready(rlist)
            if rs:
                return rs, [], []
        if timeout is None:
            raise RuntimeError("model: select(None) with nothing scheduled would block forever")
        m.clock = deadline + 0.001        # a real clock read after the wait is never exactly the deadline
        return [], [], []

    select = ModelModule(_select, select=select_)

    def time_():
        return m.clock

    def sleep_(d):
        m.clock += max(0.0, d)

    time = ModelModule(_time, time=time_, monotonic=time_, sleep=sleep_)
    threading = types.SimpleNamespace(current_thread=lambda: ("main" if m.main_thread else "worker"), main_thread=lambda: "main")
    return {"termios": termios, "tty": tty, "fcntl": fcntl, "signal": signal, "os": os_, "select": select, "time": time,
            "threading": threading}


_SAVED = {}


def install(m, encoding="utf8"):
    """bind the model into curtsies.input / curtsies.termhelpers (module globals only; sources untouched)"""
    import curtsies.input as ci
    import curtsies.termhelpers as th
    mods = make_modules(m)
    for mod, names in ((ci, ("termios", "tty", "signal", "os", "select", "time", "threading")), (th, ("termios", "tty", "fcntl", "os"))):
        for n in names:
            _SAVED.setdefault((mod.__name__, n), getattr(mod, n))
            setattr(mod, n, mods[n])
    _SAVED.setdefault(("curtsies.input", "getpreferredencoding"), ci.getpreferredencoding)
    ci.getpreferredencoding = lambda: encoding
    _SAVED.setdefault(("curtsies.input", "sys"), ci.sys)
    ci.sys = types.SimpleNamespace(platform="linux", maxsize=2 ** 63 - 1, __stdin__=FakeStream(m.tty_fd), getdefaultencoding=lambda: "utf8")
    return mods


def uninstall():
    import importlib
    for (modname, n), v in _SAVED.items():
        setattr(importlib.import_module(modname), n, v)
    _SAVED.clear()
