"""Width oracle standing in for the cwcwidth C extension inside curtsies.formatstring.

Alphabet (stated in the evidence): narrow = ASCII letters 'A'..'z' range 0x41..0x7A, wide = fullwidth
letters U+FF21..U+FF3A (2 columns), combining = U+0300..U+036F (0 columns).  The stub is validated
against the real cwcwidth on the whole alphabet by the self-test; concrete twins use the real one."""

NARROW = (0x41, 0x7A)
WIDE = (0xFF21, 0xFF3A)
COMB = (0x300, 0x36F)


def in_alphabet(c):
    o = ord(c)
    return (NARROW[0] <= o <= NARROW[1]) or (WIDE[0] <= o <= WIDE[1]) or (COMB[0] <= o <= COMB[1])


def wcwidth(c):
    o = ord(c)
    if WIDE[0] <= o <= WIDE[1]:
        return 2
    if COMB[0] <= o <= COMB[1]:
        return 0
    return 1


def wcswidth(s, n=None):
    total = 0
    i = 0
    for c in s:
        if n is not None and i >= n:
            break
        total += wcwidth(c)
        i += 1
    return total


def install():
    import curtsies.formatstring as fs
    fs.wcwidth = wcwidth
    fs.wcswidth = wcswidth


# ---- extended oracle (C01 'chars' family): also control characters, NUL, CJK, ZWJ -------------------------
EXT_CHARS = "a\n\t\u754c\u0301\x00 \x7f\u200d\uff25Z~\r"


def wcwidth_ext(c):
    o = ord(c)
    if o == 0 or o == 0x200d or COMB[0] <= o <= COMB[1]:
        return 0
    if o < 32 or 0x7f <= o < 0xa0:
        return -1
    if WIDE[0] <= o <= WIDE[1] or 0x4e00 <= o <= 0x9fff:
        return 2
    return 1


def wcswidth_ext(s, n=None):
    from chx.domains.segstr import SegStr, Unsupported
    if isinstance(s, SegStr):
        raise Unsupported("width of an abstract text")
    total = 0
    i = 0
    for c in s:
        if n is not None and i >= n:
            break
        w = wcwidth_ext(c)
        if w < 0:
            return -1
        total += w
        i += 1
    return total


def install_ext():
    import curtsies.formatstring as fs
    fs.wcwidth = wcwidth_ext
    fs.wcswidth = wcswidth_ext


def selftest_ext():
    import cwcwidth
    n = 0
    for c in EXT_CHARS:
        assert cwcwidth.wcwidth(c) == wcwidth_ext(c), hex(ord(c))
        n += 1
    for s in ("a\u0301", "\u0301", "\x00", "a\nb", "\u754c\u754c", "", "\u200d\u0301", "ab\x7f"):
        assert cwcwidth.wcswidth(s) == wcswidth_ext(s), repr(s)
        n += 1
    return n


def selftest():
    import cwcwidth
    n = 0
    for lo, hi in (NARROW, WIDE, COMB):
        for o in range(lo, hi + 1):
            assert cwcwidth.wcwidth(chr(o)) == wcwidth(chr(o)), hex(o)
            n += 1
    for s in ("aＥb́", "", "́a", "ＥＥ", "abc"):
        assert cwcwidth.wcswidth(s) == wcswidth(s), s
        for k in range(0, len(s) + 2):
            assert cwcwidth.wcswidth(s, k) == wcswidth(s, k), (s, k)
            n += 1
    return n
