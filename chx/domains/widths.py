"""Width oracle standing in for the cwcwidth C extension inside curtsies.formatstring.

Alphabet (stated in the evidence): narrow = ASCII letters 'A'..'z' range 0x41..0x7A, wide = fullwidth
letters U+FF21..U+FF3A (2 columns), combining = U+0300..U+036F (0 columns).  The stub is validated
against the real cwcwidth on the whole alphabet by the self-test; concrete twins use the real one."""

NARROW = (0x41, 0x7A)
WIDE = (0xFF21, 0xFF3A)
COMB = (0x300, 0x36F)


def in_alphabet(c):
    o = ord(c)
    return (NARROW[0] <= o <= NARROW[1]) or (WIDE[0] <= o <= WIDE[1]) or (COMB[0] <= o <= COMB[1])


def wcwidth(c):
    o = ord(c)
    if WIDE[0] <= o <= WIDE[1]:
        return 2
    if COMB[0] <= o <= COMB[1]:
        return 0
    return 1


def wcswidth(s, n=None):
    total = 0
    i = 0
    for c in s:
        if n is not None and i >= n:
            break
        total += wcwidth(c)
        i += 1
    return total


def install():
    import curtsies.formatstring as fs
    fs.wcwidth = wcwidth
    fs.wcswidth = wcswidth


def selftest():
    import cwcwidth
    n = 0
    for lo, hi in (NARROW, WIDE, COMB):
        for o in range(lo, hi + 1):
            assert cwcwidth.wcwidth(chr(o)) == wcwidth(chr(o)), hex(o)
            n += 1
    for s in ("aＥb́", "", "́a", "ＥＥ", "abc"):
        assert cwcwidth.wcswidth(s) == wcswidth(s), s
        for k in range(0, len(s) + 2):
            assert cwcwidth.wcswidth(s, k) == wcswidth(s, k), (s, k)
            n += 1
    return n
