"""Reference terminal model (xterm semantics) used as environment stub for the window properties.

A grid of h x w cells (char, attrs) - the char may be a symbolic CrossHair value -, a cursor with
the xterm pending-wrap flag, autowrap, scrolling at the bottom margin with a scrollback list,
DECSC/DECRC, CUP (clamped), LF, CR, CHA, EL 0/1, ED 0, cursor visibility, the alternate screen
(1049) with a separate main buffer and DSR 6 answered on the input side.

Control strings arrive concrete (they come from blessed) and are parsed by ordinary Python.
Row content arrives as `Tagged(FmtStr)`: the harness window overrides the public extension
point fmtstr_to_stdout_xform() so that the model draws cells from the run list instead of
re-parsing a symbolic escape string (assume-guarantee split: str(f) displays f's cells and
restores the default state is property C01, checked on its own).
"""

BLANK = (" ", ())


def att_key(atts):
    return tuple(sorted((k, v) for k, v in dict(atts).items() if v is not False and v is not None))


class Tagged:
    """a row handed to the output stream as the FmtStr (or plain str) itself"""

    def __init__(self, line):
        self.line = line

    def cells(self):
        line = self.line
        if isinstance(line, str):
            return [(c, ()) for c in line]
        out = []
        for ch in line.chunks:
            a = att_key(ch.atts)
            for c in ch.s:
                out.append((c, a))
        return out


class ModelError(Exception):
    pass


class Recorder:
    """out_stream: records what the window writes and feeds it to the terminal model at once"""

    def __init__(self, model=None):
        self.model = model
        self.log = []

    def write(self, msg):
        self.log.append(msg)
        if self.model is not None:
            self.model.feed(msg)

    def flush(self):
        pass

    def fileno(self):
        import io
        raise io.UnsupportedOperation("not a real stream")

    def isatty(self):
        return False


class TermModel:
    def __init__(self, h, w, cells=None):
        self.h, self.w = h, w
        self.grid = [[BLANK for _ in range(w)] for _ in range(h)]
        if cells is not None:
            for r in range(h):
                for c in range(w):
                    self.grid[r][c] = cells[r][c]
        self.r = 0
        self.c = 0
        self.pending = False
        self.saved = (0, 0, False)
        self.scrollback = []
        self.scrolls = 0
        self.cursor_visible = True
        self.alt = False
        self.main_buffer = None
        self.replies = []        # characters the terminal sends back (DSR 6)
        self.unknown = []

    # ---- helpers
    def _scroll_up(self):
        self.scrollback.append(self.grid[0])
        self.grid = self.grid[1:] + [[BLANK for _ in range(self.w)]]
        self.scrolls += 1

    def _lf(self):
        if self.r == self.h - 1:
            self._scroll_up()
        else:
            self.r += 1

    def put(self, cell):
        if self.pending:
            self.c = 0
            self.pending = False
            self._lf()
        self.grid[self.r][self.c] = cell
        if self.c == self.w - 1:
            self.pending = True
        else:
            self.c += 1

    def cup(self, r, c):
        self.r = min(max(r, 0), self.h - 1)
        self.c = min(max(c, 0), self.w - 1)
        self.pending = False

    # ---- input
    def feed(self, msg):
        if isinstance(msg, Tagged):
            for cell in msg.cells():
                self.put(cell)
            return
        s = msg
        i = 0
        n = len(s)
        while i < n:
            ch = s[i]
            if ch == "\x1b":
                if i + 1 < n and s[i + 1] == "[":
                    j = i + 2
                    while j < n and not ("@" <= s[j] <= "~"):
                        j += 1
                    if j >= n:
                        raise ModelError("truncated CSI in %r" % s)
                    self._csi(s[i + 2:j], s[j])
                    i = j + 1
                    continue
                if i + 1 < n and s[i + 1] == "7":
                    self.saved = (self.r, self.c, self.pending)
                    i += 2
                    continue
                if i + 1 < n and s[i + 1] == "8":
                    self.r, self.c, self.pending = self.saved
                    i += 2
                    continue
                raise ModelError("unknown escape in %r" % s)
            if ch == "\n":
                self._lf()
            elif ch == "\r":
                self.c = 0
                self.pending = False
            else:
                self.put((ch, ()))
            i += 1

    def _csi(self, params, final):
        private = params.startswith("?")
        nums = [int(p) if p else 0 for p in params.lstrip("?").split(";")] if params.lstrip("?") else []
        if private:
            if final in "hl":
                on = final == "h"
                for p in nums:
                    if p == 25:
                        self.cursor_visible = on
                    elif p == 1049:
                        if on and not self.alt:
                            self.main_buffer = (self.grid, self.r, self.c, self.pending)
                            self.grid = [[BLANK for _ in range(self.w)] for _ in range(self.h)]
                            self.alt = True
                        elif not on and self.alt:
                            self.grid, self.r, self.c, self.pending = self.main_buffer
                            self.alt = False
                    # ?12 (cursor blink) and others: no effect on what the properties observe
                return
            self.unknown.append(params + final)
            return
        if final == "H":
            r = (nums[0] if len(nums) > 0 and nums[0] else 1) - 1
            c = (nums[1] if len(nums) > 1 and nums[1] else 1) - 1
            self.cup(r, c)
        elif final == "G":
            c = (nums[0] if nums and nums[0] else 1) - 1
            self.c = min(max(c, 0), self.w - 1)
            self.pending = False
        elif final == "K":
            mode = nums[0] if nums else 0
            if mode == 0:
                for c in range(self.c, self.w):
                    self.grid[self.r][c] = BLANK
            elif mode == 1:
                for c in range(0, self.c + 1):
                    self.grid[self.r][c] = BLANK
            else:
                for c in range(self.w):
                    self.grid[self.r][c] = BLANK
        elif final == "J":
            mode = nums[0] if nums else 0
            if mode == 0:
                for c in range(self.c, self.w):
                    self.grid[self.r][c] = BLANK
                for r in range(self.r + 1, self.h):
                    self.grid[r] = [BLANK for _ in range(self.w)]
            else:
                self.unknown.append(params + final)
        elif final == "n":
            if nums == [6]:
                self.replies.extend("\x1b[%d;%dR" % (self.r + 1, self.c + 1))
        elif final in "tm":
            pass          # window ops / SGR outside tagged rows: nothing the properties observe
        elif final == "B":
            k = nums[0] if nums and nums[0] else 1
            self.r = min(self.r + k, self.h - 1)
            self.pending = False
        else:
            self.unknown.append(params + final)


def sized_terminal(stream, size):
    """a real blessed.Terminal whose height/width come from `size` ([h, w], mutable) and whose move(row, col)
    strings are looked up in a table computed ONCE from the real capability (blessed formats every call through a
    pure-Python tparm interpreter, ~0.1 s per call under the tracer; the strings themselves are the real ones)"""
    import blessed

    class SizedTerminal(blessed.Terminal):
        @property
        def height(self):
            return size[0]

        @property
        def width(self):
            return size[1]

    t = SizedTerminal(stream=stream, force_styling=True)
    table = {}
    for r in list(range(0, 8)) + [1000000]:
        for c in range(0, 8):
            table[(r, c)] = str(t.move(r, c))
    xtable = {c: str(t.move_x(c)) for c in range(0, 8)}

    def move(r, c):
        from crosshair.core import realize
        from crosshair.tracers import NoTracing, is_tracing
        if is_tracing():
            r, c = realize(r), realize(c)
            with NoTracing():
                return table[(int(r), int(c))]
        return table[(int(r), int(c))]

    def move_x(c):
        from crosshair.core import realize
        from crosshair.tracers import is_tracing
        if is_tracing():
            c = realize(c)
        return xtable[int(c)]

    SizedTerminal.move = property(lambda self: move)
    SizedTerminal.move_x = property(lambda self: move_x)
    return t
