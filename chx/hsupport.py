"""Symbolic-side support shared by the harness modules (runs inside the worker, under CrossHair)."""
import z3
from crosshair.libimpl.builtinslib import SymbolicBool, SymbolicInt
from crosshair.tracers import NoTracing, ResumedTracing

from chx.domains.segstr import SegStr, zint, OUT, LIT, SPACE_SRC

P = {}          # instance parameters (concrete)
EXCL = set()    # regions of known findings excluded from the search
WITNESS = False
NOTES = []


def configure(params, excluded, witness):
    global WITNESS
    P.clear()
    P.update(params)
    EXCL.clear()
    EXCL.update(excluded)
    WITNESS = witness


def excluded(region):
    return region in EXCL


def verdict(ok, nontrivial=True):
    """final oracle verdict; the reachability twin (witness mode) negates it so that the
    solver must exhibit an input on which the assertion is REACHED and TRUE (and which is
    `nontrivial`, so the witness exercises the interesting part of the harness)"""
    if WITNESS:
        if not nontrivial:
            return True
        return not ok
    return ok


def sbool(term):
    with NoTracing():
        return SymbolicBool(term)


# ---- attribute identities ---------------------------------------------------------
_ATT_IDS = {}


def att_id(atts):
    """small int identifying what a run's attributes DISPLAY as (False == absent)"""
    key = tuple(sorted((k, v) for k, v in dict(atts).items() if v is not False and v is not None))
    if key not in _ATT_IDS:
        _ATT_IDS[key] = len(_ATT_IDS)
    return _ATT_IDS[key]


NOATT = None


def flat_at(f, p):
    """z3 terms (a, b, att, length) for the p-th character of a FmtStr whose runs hold
    SegStr / plain str texts: (a, b) is the atom (see SegStr.atom_at), att the attribute id"""
    with NoTracing():
        p = zint(p)
        off = z3.IntVal(0)
        conds = []
        for ch in f.chunks:
            s = ch._s
            if not isinstance(s, SegStr):
                if isinstance(s, str) and type(s) is str:
                    s = SegStr.literal(s)
                else:
                    raise TypeError("flat_at: unexpected run text %r" % type(s))
            n = s._zlen()
            a, b = s.atom_at(p - off)
            conds.append((z3.And(p >= off, p < off + n), a, b, att_id(ch._atts)))
            off = off + n
        a = z3.IntVal(OUT)
        b = z3.IntVal(OUT)
        att = z3.IntVal(OUT)
        for c, aa, bb, t in reversed(conds):
            a = z3.If(c, aa, a)
            b = z3.If(c, bb, b)
            att = z3.If(c, z3.IntVal(t), att)
        return a, b, att, z3.simplify(off)


def same(x, y):
    """z3: two flat_at triples denote the same character with the same displayed formatting"""
    return z3.And(x[0] == y[0], x[1] == y[1], x[2] == y[2])


def zmin(a, b):
    return z3.If(a < b, a, b)


def zmax(a, b):
    return z3.If(a > b, a, b)


def abstract_int_text():
    """Opt-in stub: text rendered from a SYMBOLIC int (f-string / repr / str / %d) is the
    placeholder '<int>' instead of forcing the solver to enumerate concrete values.  Used
    only in families where such text can only end up in exception messages."""
    from crosshair.libimpl import builtinslib as bl
    bl.SymbolicInt.__format__ = lambda self, fmt: "<int>"
    bl.SymbolicInt.__repr__ = lambda self: "<int>"
    bl.SymbolicInt.__str__ = lambda self: "<int>"
    from crosshair.core import _PATCH_REGISTRATIONS
    for builtin in (format, repr, str):
        orig = _PATCH_REGISTRATIONS.get(builtin)
        if orig is None:
            continue

        def patched(obj="", *a, _orig=orig, **kw):
            with NoTracing():
                if isinstance(obj, bl.SymbolicInt):
                    return "<int>"
            return _orig(obj, *a, **kw)

        _PATCH_REGISTRATIONS[builtin] = patched


def warm(*fs):
    """history: the values were displayed and measured before the operation under test - every memoised view
    (terminal string, plain text, length, run boundaries) is filled in.  Plain strs are left alone."""
    for f in fs:
        with NoTracing():
            is_fmt = type(f).__name__ == "FmtStr"
        if is_fmt:
            str(f), f.s, len(f)
            try:
                f.divides
            except AttributeError:
                pass
            for c in f.chunks:
                c.color_str


def observe(r):
    """(call under tracing) the memoised views of a result: len(r) and r.s"""
    return len(r), r.s


def views_term(obs, res, Pz, explen):
    """(call under NoTracing) z3: len(r) == explen and r.s has that length and the same
    characters as the runs (res = flat_at(r, Pz))"""
    ln, s = obs
    t = zint(ln) == explen
    if isinstance(s, SegStr):
        a, b = s.atom_at(Pz)
        t = z3.And(t, s._zlen() == explen, z3.Implies(z3.And(Pz >= 0, Pz < explen), z3.And(a == res[0], b == res[1])))
    elif isinstance(s, str) and type(s) is str:
        lit = SegStr.literal(s)
        a, b = lit.atom_at(Pz)
        t = z3.And(t, explen == len(s), z3.Implies(z3.And(Pz >= 0, Pz < explen), z3.And(a == res[0], b == res[1])))
    else:
        t = z3.BoolVal(False)
    return t


# ---- native (per-character symbolic) strings: oracle helpers --------------------------
def sym_cells(f):
    """[(char, att id)] of a FmtStr whose run texts are native CrossHair strings (call under tracing)"""
    out = []
    for ch in f.chunks:
        a = att_id(ch.atts)
        for c in ch.s:
            out.append((c, a))
    return out


def cells_equal(xs, ys):
    if len(xs) != len(ys):
        return False
    for (c1, a1), (c2, a2) in zip(xs, ys):
        if a1 != a2 or c1 != c2:
            return False
    return True


# ---- two-level selectors -------------------------------------------------------------
# Realising ONE selector over N values builds a linear chain of N "== v?" decisions (cost O(N^2) over the run);
# two selectors over ~sqrt(N) values each keep the chain short.
def group_size(n):
    g = 1
    while g * g < n:
        g += 1
    return max(g, 1)


def sel_ok(n, s1, s2):
    g = group_size(n)
    return 0 <= s1 and 0 <= s2 < g and s1 * g + s2 < n


def pick(cases, s1, s2):
    from crosshair.core import realize
    g = group_size(len(cases))
    return cases[int(realize(s1)) * g + int(realize(s2))]


def pick_concrete(cases, s1, s2):
    return cases[s1 * group_size(len(cases)) + s2]


# ---- what a FmtStr PRINTS as vs what its runs say (SegStr domain) ---------------------------------
def render_term(f, out, p):
    """(call under NoTracing; `out` = str(f) obtained under tracing) z3: the terminal string draws exactly len(f)
    characters, the p-th one being f's p-th character in f's displayed formatting, contains nothing but text and
    supported SGR sequences and ends in the default graphic state.  Catches memoised strings that no longer describe
    the runs."""
    from chx.common import sgr_interpret
    from chx.domains.segstr import _lit
    if isinstance(out, SegStr):
        segs = out._segs
    elif isinstance(out, str) and type(out) is str:
        segs = _lit(out)
    else:
        return z3.BoolVal(False)
    p = zint(p)
    st = {}
    draws = []          # (kind, payload, length term, att id)
    buf = ""

    def flush():
        nonlocal buf, st
        r = sgr_interpret(buf, st)
        buf = ""
        if r is None:
            return False
        cs, st = r
        for c, d in cs:
            draws.append(("lit", ord(c), z3.IntVal(1), att_id(d)))
        return True

    for src, lo, hi in segs:
        if isinstance(src, tuple):
            lo_c, hi_c = z3.simplify(lo), z3.simplify(hi)
            if not (z3.is_int_value(lo_c) and z3.is_int_value(hi_c)):
                return z3.BoolVal(False)
            buf += src[1][lo_c.as_long():hi_c.as_long()]
        else:
            if not flush():
                return z3.BoolVal(False)
            if src == SPACE_SRC:
                draws.append(("sp", None, hi - lo, att_id(st)))
            else:
                draws.append(("src", (src, lo), hi - lo, att_id(st)))
    if not flush() or st != {}:
        return z3.BoolVal(False)
    a = z3.IntVal(OUT)
    b = z3.IntVal(OUT)
    t = z3.IntVal(OUT)
    off = z3.IntVal(0)
    conds = []
    for kind, payload, ln, aid in draws:
        if kind == "lit":
            aa, bb = z3.IntVal(LIT), z3.IntVal(payload)
        elif kind == "sp":
            aa, bb = z3.IntVal(LIT), z3.IntVal(32)
        else:
            aa, bb = z3.IntVal(payload[0]), payload[1] + (p - off)
        conds.append((z3.And(p >= off, p < off + ln), aa, bb, aid))
        off = off + ln
    for c, aa, bb, aid in reversed(conds):
        a = z3.If(c, aa, a)
        b = z3.If(c, bb, b)
        t = z3.If(c, z3.IntVal(aid), t)
    fa, fb, ft, flen = flat_at(f, p)
    return z3.And(off == flen, z3.Implies(z3.And(p >= 0, p < flen), z3.And(a == fa, b == fb, t == ft)))
