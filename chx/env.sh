#!/bin/sh
# Idempotently build /verif/.venv: a venv of /venv/bin/python that also sees /venv's
# site-packages (curtsies editable install -> /repo, blessed, cwcwidth, pyte) plus
# crosshair-tool (+ z3-solver) from the offline wheelhouse.  No network.
set -e
V=/verif/.venv
STAMP=$V/.ok
if [ -f "$STAMP" ] && "$V/bin/python" -c "import crosshair, z3, curtsies" >/dev/null 2>&1; then
  exit 0
fi
(
  flock 9
  if [ -f "$STAMP" ] && "$V/bin/python" -c "import crosshair, z3, curtsies" >/dev/null 2>&1; then
    exit 0
  fi
  rm -rf "$V"
  /venv/bin/python -m venv "$V"
  SP=$("$V/bin/python" -c "import sysconfig; print(sysconfig.get_paths()['purelib'])")
  printf "import site; site.addsitedir('/venv/lib/python3.12/site-packages')\n" > "$SP/_verif_overlay.pth"
  PIP_NO_INDEX=1 "$V/bin/python" -m pip install -q --no-index --find-links /opt/veriftools/wheels crosshair-tool >/dev/null
  "$V/bin/python" -c "import crosshair, z3, curtsies, blessed, cwcwidth"
  touch "$STAMP"
) 9>/verif/.venv.lock
