#!/bin/sh
# runs every seeded change against the check of the property it breaks (quick tier); writes seeded/RESULTS.json
# NOTE: applies and reverts patches in /repo one at a time - do not use /repo while it runs.
cd /verif
OUT=/verif/seeded/RESULTS.jsonl
: > $OUT.tmp
for d in seeded/*/; do
  n=$(basename $d)
  [ -f $d/patch.diff ] || continue
  prop=$(python3 -c "import json;print(json.load(open('$d/meta.json'))['property'])")
  S=$(date +%s)
  line=$(./chx/seed_run.sh $n $prop ${1:-quick} 2>&1 | head -1)
  E=$(date +%s)
  echo "$line ($((E-S))s)"
  python3 - "$n" "$prop" "$line" "$((E-S))" >> $OUT.tmp <<'PY'
import json, re, sys
n, prop, line, secs = sys.argv[1:5]
m = re.search(r"exit (\d+); (\d+) VIOLATION", line)
print(json.dumps({"seeded": n, "property": prop, "check_exit": int(m.group(1)) if m else None,
                  "violation_lines": int(m.group(2)) if m else None, "detected": bool(m and m.group(1) == "1" and int(m.group(2)) > 0), "seconds": int(secs)}))
PY
done
mv $OUT.tmp $OUT
