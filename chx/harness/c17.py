"""C17 - fmtstr accepts any string: never raises, never loses ordinary text.

Real code: fmtstr, FmtStr.from_str, remove_ansi, parse, peel_off_esc_code, token_type, parse_args.
Symbolic: strings whose characters are 'class + symbolic offset': the class of every position
(letter, control/newline, ESC, 0x9b, '[', digit, ';', intermediate, 'm', 'H', upper final,
lower final / '~', private parameter byte, non-ASCII text) is a selector the solver enumerates;
inside its class the character stays symbolic (any digit, any letter ...).
Oracle: independent ECMA-48 scanner working on the class sequence: (i) positions certainly
outside every escape-like region must survive, in order; (ii) nothing is added; (iii) for
ordinary numeric CSI input the result is exactly the input without the sequences.
"""
import itertools

from chx import hsupport as H
from chx.hsupport import P, verdict

PROP = "C17"
FUNCTIONS = ["fmtstr", "FmtStr.from_str", "escseqparse.remove_ansi", "escseqparse.parse", "escseqparse.peel_off_esc_code",
             "escseqparse.token_type", "parse_args", "FmtStr.copy_with_new_atts"]
BOUNDS = ("strings of length <= 3 over 8 character classes and of length 4 starting with ESC over 7 classes (quick); length <= 4 "
          "over 8 classes, length 5/6 with prefix ESC[ , length <= 3 over all 14 classes (thorough); within a class the "
          "character is symbolic; plus real-world samples (pygments-style output, ESC[m, ESC[38;5;n m, cursor moves, "
          "erase, private modes) with symbolic text holes")
STUBS = ["CrossHair's regex model (violations are replayed with CPython's re)", "independent ECMA-48 scanner as oracle; "
         "characters inside an escape-like region (ESC / 0x9b followed by parameter, intermediate and one final byte) may "
         "be kept or removed unless the sequence is an ordinary numeric CSI sequence"]

# class -> (lowest code point, number of code points)
CLASSES = {
    "L": (0x61, 12),      # letters a..l (text; also CSI final bytes)
    "N": (0x0A, 4),       # newline, VT, FF, CR
    "E": (0x1B, 1),       # ESC
    "C": (0x9B, 1),       # 8-bit CSI
    "B": (0x5B, 1),       # '['
    "D": (0x30, 10),      # digits
    "S": (0x3B, 1),       # ';'
    "I": (0x20, 16),      # intermediates (space .. '/')
    "m": (0x6D, 1),       # 'm'
    "H": (0x48, 1),       # 'H'
    "U": (0x41, 7),       # upper-case finals A..G (also two-byte escape finals)
    "T": (0x6E, 17),      # lower finals n..~
    "P": (0x3C, 4),       # private parameter bytes < = > ?
    "X": (0xE9, 0x4D00),  # non-ASCII text
}
Q_CLASSES = "LNEBDSmI"
ALL_CLASSES = "LNECBDSImHUTP" + "X"
CASES = []

SAMPLES = [
    # (pieces; a piece is a literal or a hole index)
    ["\x1b[38;5;12m", 0, "\x1b[39m"],
    ["\x1b[01;34m", 0, "\x1b[39;49;00m", 1],
    ["\x1b[m", 0, "\x1b[0m"],
    [0, "\x1b[2A\x1b[3C", 1],
    ["\x1b[2J\x1b[H", 0],
    ["\x1b[?25l", 0, "\x1b[?25h"],
    ["\x1b[1;31m", 0, "\x1b[K", 1, "\x1b[0m"],
    ["\x1b[38;2;1;2;3m", 0],
    [0, "\x1b[10;20H", 1, "\x1b[92m", 0],
    ["\x1b]0;title\x07", 0],
]


def instances(tier, seed):
    out = []
    T = 200 if tier == "quick" else 900
    if tier == "quick":
        plan = [(1, Q_CLASSES, None), (2, Q_CLASSES, None), (3, Q_CLASSES, None), (4, Q_CLASSES.replace("I", ""), "E")]
    else:
        plan = [(1, ALL_CLASSES, None), (2, ALL_CLASSES, None), (3, ALL_CLASSES, None), (4, Q_CLASSES, None),
                (5, Q_CLASSES.replace("I", ""), "EB"), (6, "LNDSm", "EB")]
    for n, alpha, prefix in plan:
        words = ["".join(w) for w in itertools.product(alpha, repeat=n - len(prefix or ""))]
        words = [(prefix or "") + w for w in words]
        # one instance per ~50 class words (each word is one or a few paths through the regex model)
        per = 50
        for i in range(0, len(words), per):
            out.append({"name": "any-n%d-%04d" % (n, i), "fn": "total", "timeout": T, "cost": n,
                        "params": {"n": n, "alpha": alpha, "prefix": prefix, "lo": i, "hi": i + per}})
    # text, one CSI sequence with any numeric parameters (supported or not), text: every digit symbolic
    nstruct = len(_struct_words())
    for i in range(0, nstruct, 15):
        out.append({"name": "struct-%02d" % i, "fn": "total", "timeout": T, "cost": 7, "params": {"struct": True, "n": 8, "lo": i, "hi": i + 15}})
    for k in range(len(SAMPLES)):
        if tier == "quick" and k in (1, 6, 8):
            continue          # the longest samples cost minutes in the regex model: thorough only
        out.append({"name": "sample-%02d" % k, "fn": "sample", "timeout": T, "cost": 8, "params": {"k": k, "L0": 1 if tier == "quick" else 2}})
    return out


def witness_instances(fn, lst, tier):
    return lst[len(lst) // 2:len(lst) // 2 + 1]


def _struct_words():
    out = []
    for pre in ("", "L", "N"):
        for params in ("", "1", "9", "31", "92", "0", "3;9", "1;31", ";"):     # literal digits: every value forks int() otherwise
            for final in ("m", "H", "U"):
                for post in ("", "L"):
                    out.append(pre + "EB" + params + final + post)
    return out


def _words():
    if P.get("struct"):
        return _struct_words()[P["lo"]:P["hi"]]
    n, alpha, prefix = P["n"], P["alpha"], P["prefix"]
    words = ["".join(w) for w in itertools.product(alpha, repeat=n - len(prefix or ""))]
    words = [(prefix or "") + w for w in words]
    return words[P["lo"]:P["hi"]]


def setup(params):
    if "n" in params:
        CASES[:] = _words()


# ---- independent scanner on class words --------------------------------------------------
PARAM = set("DSP")
INTER = set("I")
FINAL = set("LmHUTB")      # 0x40..0x7e members of the alphabet ('[' is 0x5b, a final byte too)
FE = set("UHB")            # 0x40..0x5f: second byte of a two-byte escape


def scan(word):
    """returns (keep, exact): keep[i] True = position i is certainly outside every escape-like region and must
    survive; exact = list of positions that remain when the input consists of ordinary numeric CSI sequences
    (ESC [ digits(;digits)* letter) and text, else None"""
    n = len(word)
    keep = [True] * n
    ordinary = True
    removed = [False] * n
    i = 0
    while i < n:
        c = word[i]
        if c in "EC":
            j = i + 1
            if c == "E":
                if j < n and word[j] == "B":
                    j += 1
                elif j < n and word[j] in FE:
                    # two-byte escape
                    for q in range(i, j + 1):
                        keep[q] = False
                    ordinary = False
                    i = j + 1
                    continue
                else:
                    keep[i] = False      # a lone ESC: not ordinary text
                    ordinary = False
                    i += 1
                    continue
            else:
                ordinary = False         # 8-bit CSI: outside the exact clause
            k = j
            while k < n and word[k] in PARAM:
                k += 1
            pend = k
            while k < n and word[k] in INTER:
                k += 1
            if k < n and word[k] in FINAL:
                end = k + 1
                params = word[j:pend]
                numeric = (pend == k) and word[k] in "LmHUT" and "P" not in params and _numeric(params)
                if c == "E" and numeric:
                    for q in range(i, end):
                        removed[q] = True
                else:
                    ordinary = False
            else:
                end = k          # truncated sequence
                ordinary = False
            for q in range(i, end):
                keep[q] = False
            i = max(end, i + 1)
        else:
            i += 1
    exact = [q for q in range(n) if not removed[q]] if ordinary else None
    return keep, exact


def _numeric(params):
    # digits(;digits)*  or empty
    if params == "":
        return True
    parts = params.split("S")
    return all(p != "" and set(p) <= {"D"} for p in parts)


def _subseq_ok(res, chars, keep):
    """res (result text) is a subsequence of chars that contains every position with keep[i]"""
    n = len(chars)
    m = len(res)

    def go(ri, j):
        if j == n:
            return ri == m
        if keep[j]:
            return ri < m and chars[j] == res[ri] and go(ri + 1, j + 1)
        if go(ri, j + 1):
            return True
        return ri < m and chars[j] == res[ri] and go(ri + 1, j + 1)
    return go(0, 0)


def _mk(word, ds):
    """characters of the word: class letters take the next symbolic offset, anything else is a literal"""
    out = []
    q = 0
    for k in word:
        if k in CLASSES:
            out.append(chr(CLASSES[k][0] + ds[q]))
            q += 1
        else:
            out.append(k)
    return out


def _cls(word):
    """class word with literal characters mapped to their class"""
    return "".join(k if k in CLASSES else ("D" if k.isdigit() else "S") for k in word)


def _ds_ok(word, ds):
    syms = [k for k in word if k in CLASSES]
    if len(syms) > len(ds):
        return False
    for i, d in enumerate(ds):
        if i < len(syms):
            if not (0 <= d < CLASSES[syms[i]][1]):
                return False
        elif d != 0:
            return False
    return True


def total(sel: int, d0: int, d1: int, d2: int, d3: int, d4: int, d5: int, d6: int, d7: int) -> bool:
    """
    pre: 0 <= sel < len(CASES)
    post: _
    """
    from crosshair.core import realize
    from curtsies.formatstring import fmtstr, FmtStr
    word = CASES[realize(sel)]
    ds = [d0, d1, d2, d3, d4, d5, d6, d7]
    if not _ds_ok(word, ds):
        return True
    chars = _mk(word, ds)
    s = "".join(chars)
    try:
        r = fmtstr(s)
        r2 = FmtStr.from_str(s)
    except Exception:      # noqa - the statement says: never raises
        return verdict(False)
    word = _cls(word)
    keep, exact = scan(word)
    res = r.s
    if not (r2.s == res):
        return verdict(False)
    if "E" not in word and "C" not in word:
        ok = res == s and all(len(ch.atts) == 0 for ch in r.chunks)
        return verdict(ok, len(word) >= 2)
    if exact is not None:
        want = "".join(chars[q] for q in exact)
        return verdict(res == want, True)
    return verdict(_subseq_ok(list(res), chars, keep), True)


def sample(h0: str, h1: str) -> bool:
    """
    pre: len(h0) <= P["L0"] and len(h1) <= 1
    pre: all(ord(c) != 27 and ord(c) != 0x9b for c in h0 + h1)
    post: _
    """
    from curtsies.formatstring import fmtstr
    pieces = SAMPLES[P["k"]]
    holes = [h0, h1]
    s = ""
    text = ""
    for pc in pieces:
        if isinstance(pc, int):
            s = s + holes[pc]
            text = text + holes[pc]
        else:
            s = s + pc
    try:
        r = fmtstr(s)
    except Exception:   # noqa
        return verdict(False)
    res = r.s
    if pieces[0] == "\x1b]0;title\x07":
        # OSC string: not a CSI sequence - only "characters removed, never added, ordinary text kept"
        full = list(s)
        keep = [False] * len("\x1b]0;title\x07") + [True] * (len(full) - len("\x1b]0;title\x07"))
        return verdict(_subseq_ok(list(res), full, keep), len(h0) >= 1)
    private = any(isinstance(pc, str) and "?" in pc for pc in pieces)
    if private:
        full = list(s)
        keep = []
        for pc in pieces:
            keep += [isinstance(pc, int)] * (len(holes[pc]) if isinstance(pc, int) else len(pc))
        return verdict(_subseq_ok(list(res), full, keep), len(h0) >= 1)
    return verdict(res == text, len(h0) >= 1)


# ---------------------------------------------------------------- concrete twin (plain CPython)
def _classify(ch):
    o = ord(ch)
    for k, (lo, cnt) in CLASSES.items():
        if lo <= o < lo + cnt:
            return k
    return "X"


def concrete(fn, params, args):
    from curtsies.formatstring import fmtstr, FmtStr
    if fn == "longsample":
        return _longsample(params["k"])
    if fn == "stringsweep":
        return _stringsweep()
    P.clear()
    P.update(params)
    if fn == "total":
        word = _words()[args[0]]
        ds = list(args[1:9])
        if not _ds_ok(word, ds):
            return {"ok": True, "observed": "outside the class ranges", "call": "-"}
        chars = _mk(word, ds)
        s = "".join(chars)
        call = "fmtstr(%r)" % s
        try:
            r = fmtstr(s)
            r2 = FmtStr.from_str(s)
        except Exception as ex:
            return {"ok": False, "observed": "raised %r" % (ex,), "expected": "no exception", "call": call}
        word = _cls(word)
        keep, exact = scan(word)
        res = r.s
        if r2.s != res:
            return {"ok": False, "observed": "fmtstr -> %r, from_str -> %r" % (res, r2.s), "expected": "same text", "call": call}
        if "E" not in word and "C" not in word:
            return {"ok": res == s and all(len(ch.atts) == 0 for ch in r.chunks), "observed": repr(r), "expected": "verbatim, unformatted", "call": call}
        if exact is not None:
            want = "".join(chars[q] for q in exact)
            return {"ok": res == want, "observed": repr(res), "expected": repr(want), "call": call}
        return {"ok": _subseq_ok(list(res), chars, keep), "observed": repr(res),
                "expected": "a subsequence of the input keeping positions %r" % [i for i, k in enumerate(keep) if k], "call": call}
    holes = [args[0], args[1]]
    pieces = SAMPLES[params["k"]]
    s = "".join(holes[pc] if isinstance(pc, int) else pc for pc in pieces)
    text = "".join(holes[pc] for pc in pieces if isinstance(pc, int))
    call = "fmtstr(%r)" % s
    try:
        r = fmtstr(s)
    except Exception as ex:
        return {"ok": False, "observed": "raised %r" % (ex,), "expected": "no exception", "call": call}
    res = r.s
    if pieces[0] == "\x1b]0;title\x07" or any(isinstance(pc, str) and "?" in pc for pc in pieces):
        keep = []
        for pc in pieces:
            keep += [isinstance(pc, int)] * (len(holes[pc]) if isinstance(pc, int) else len(pc))
        return {"ok": _subseq_ok(list(res), list(s), keep), "observed": repr(res), "expected": "input minus (parts of) the escape sequences, text kept", "call": call}
    return {"ok": res == text, "observed": repr(res), "expected": repr(text), "call": call}


LONG_SAMPLES = [
    "".join("\x1b[%dm%s" % (90 + (i % 8), "w%d " % i) for i in range(24)) + "\x1b[0m",            # bright colours, 25 sequences
    "".join("\x1b[38;5;%dm%c\x1b[39m" % (i, 97 + i % 26) for i in range(20)),                       # 256-colour, 40 sequences
    "x" + "".join("\x1b[1;3%dm%s\x1b[0m" % (i % 8, "ab") for i in range(30)) + "\x1b[2K\x1b[10;3Hy",   # supported + erase + move
    "line1\n" + "".join("\x1b[4%dm \x1b[49m" % (i % 8) for i in range(18)) + "\nline3\x1b[21m!",       # 36 supported, one unsupported, newlines
]


PARAM_VALUES = [0, 1, 2, 5, 7, 22, 30, 37, 38, 39, 40, 47, 48, 49, 90, 100, 255]
FRAGMENTS = ["\x1b[", "\x1b[3", "\x1b", "\x9b", "\x1b[1;", "\x1b[3;4"]
UNSUPPORTED = ["\x1b[90m", "\x1b[53m", "\x1b[38;5;1m", "\x1b[2A", "\x1b[21m", "\x9b90m"]
TAILS = ["31mX", "1Ab", "mX", "0mY", "X", ";1mZ", ""]


def _string_cases():
    """finite families replayed on every run: (a) one SGR sequence with every parameter list of length <= 3 over the
    boundary values of the parameter space (truncated extended-colour selectors included), between two letters;
    (b) a truncated introducer, then a complete unsupported sequence, then text that would complete a sequence with the
    truncated introducer if the middle were spliced out"""
    import itertools
    out = []
    for n in (1, 2, 3):
        for ps in itertools.product(PARAM_VALUES, repeat=n):
            if n == 3 and not (ps[0] in (38, 48, 1, 0) or ps[1] in (38, 48)):
                continue
            out.append("a\x1b[" + ";".join(map(str, ps)) + "mb")
    for extra in ("\x1b[1;m", "\x1b[;m", "\x1b[31;m", "\x1b[;1m", "\x1b[0;;1m", "\x1b[;;m", "\x1b[38;2;10;20m", "\x1b[48;2;1;2;3m", "\x1b[38;5m", "\x1b[1;38m", "\x1b[38;2m", "\x1b[48;5;7;1m"):
        out.append("a" + extra + "b")
    # a bare ESC (or a two-character escape) in the text, with supported sequences before / after it
    for lone in ("\x1bz", "\x1b", "\x1bA", "\x1b\n"):
        for sgr in ("\x1b[31m", "\x1b[1;44m", "\x1b[0m"):
            out.append("a" + lone + "b" + sgr + "c")
            out.append(sgr + "a" + lone + "b" + "\x1b[0m")
            out.append("a" + lone + sgr + "c")
    for pre in ("", "a"):
        for fr in FRAGMENTS:
            for un in UNSUPPORTED:
                for tl in TAILS:
                    out.append(pre + fr + un + tl)
    return out


def extra_concrete_cases():
    """long real-world style lines (many sequences, supported and unsupported codes) and two finite string families:
    finite data replayed on every run"""
    return [("longsample", {"k": k}, []) for k in range(len(LONG_SAMPLES))] + [("stringsweep", {}, [])]


def _judge_string(s):
    from curtsies.formatstring import fmtstr, FmtStr
    call = "fmtstr(%r)" % s
    try:
        r = fmtstr(s)
        r2 = FmtStr.from_str(s)
    except BaseException as ex:      # noqa - StopIteration / RecursionError count too
        if isinstance(ex, (KeyboardInterrupt, SystemExit)):
            raise
        return {"ok": False, "observed": "raised %r" % (ex,), "expected": "no exception", "call": call}
    chars = list(s)
    word = _word_of(chars)
    keep, exact = scan(word)
    res = r.s
    if r2.s != res:
        return {"ok": False, "observed": "fmtstr -> %r, from_str -> %r" % (res, r2.s), "expected": "same text", "call": call}
    if exact is not None:
        want = "".join(chars[q] for q in exact)
        return {"ok": res == want, "observed": repr(res), "expected": repr(want), "call": call}
    return {"ok": _subseq_ok(list(res), chars, keep), "observed": repr(res),
            "expected": "a subsequence of the input keeping positions %r" % [i for i, k in enumerate(keep) if k], "call": call}


def _word_of(chars):
    """class word of a concrete string (inverse of _mk for the classes scan() distinguishes)"""
    out = []
    for c in chars:
        k = None
        for name, (lo, cnt) in CLASSES.items():
            if lo <= ord(c) < lo + cnt:
                k = name
                break
        out.append(k or "X")
    return "".join(out)


def _stringsweep():
    n = 0
    for s in _string_cases():
        n += 1
        r = _judge_string(s)
        if not r["ok"]:
            return r
    return {"ok": True, "observed": "%d strings: no exception, text kept" % n, "call": "stringsweep"}


def _longsample(k):
    import re
    from curtsies.formatstring import fmtstr
    s = LONG_SAMPLES[k]
    want = re.sub(r"\x1b\[[0-9;]*[A-Za-z]", "", s)
    call = "fmtstr(<long sample %d: %d characters, %d CSI sequences>)" % (k, len(s), s.count("\x1b["))
    try:
        r = fmtstr(s)
    except Exception as ex:
        return {"ok": False, "observed": "raised %r" % (ex,), "expected": "no exception", "call": call}
    return {"ok": r.s == want, "observed": repr(r.s)[:200], "expected": repr(want)[:200], "call": call}
