"""C19 - equality, hashing and repr of FmtStr are coherent with what it displays.

Real code: FmtStr.__eq__/__hash__/__repr__, Chunk.repr_part, Chunk.__eq__/__hash__, fmtfuncs.
Symbolic: run texts are native CrossHair strings (characters symbolic over a small alphabet,
length <= L); attribute layouts are catalogue entries enumerated by the solver.
The terminal string str(f) is taken from the real code (its correctness is C01's subject).
"""
from chx import hsupport as H
from chx.hsupport import P, verdict
from chx.common import STYLE_NAMES, disp, cells, fmt_cells

PROP = "C19"
FUNCTIONS = ["FmtStr.__eq__", "FmtStr.__hash__", "FmtStr.__repr__", "Chunk.repr_part", "Chunk.__eq__", "Chunk.__hash__",
             "fmtfuncs.* (eval of repr)", "FmtStr.__str__"]
BOUNDS = ("two FmtStrs of 0..2 runs each, every run text a symbolic string of length <= L (quick 1, thorough 2) over the "
          "alphabet {a, b} (equality / hashing) or {a, ', \\\\, newline, U+00E9} (repr), attribute layouts from an 11-entry "
          "catalogue (23 pairs), plain str operands: symbolic <= 3 characters and terminal strings of a second FmtStr; "
          "repr: 1..2 runs over the C01 reduced attribute set (quick) / all 5184+ patterns with False values (thorough)")
STUBS = ["native CrossHair symbolic str; hashing realises the hashed string (small alphabets keep that finite)"]

ATT = [{}, {"fg": 31}, {"fg": 32}, {"bold": True}, {"bold": False}, {"fg": 31, "bold": True}, {"bg": 41}, {"underline": True, "fg": 31},
       {"fg": 31, "bold": False}, {"invert": True}, {"dark": False, "blink": False}]
# layouts: (run attributes of f, run attributes of g)
LAYOUTS = [((), ()), ((0,), ()), ((0,), (0,)), ((1,), (1,)), ((1,), (2,)), ((1,), (0,)), ((3,), (4,)), ((0,), (4,)), ((1,), (8,)),
           ((1, 1), (1,)), ((1, 3), (1, 3)), ((1, 3), (3, 1)), ((0, 0), (0,)), ((5,), (1, 3)), ((1,), (1, 0)), ((6,), (6,)),
           ((7,), (1,)), ((9,), (9,)), ((10,), (0,)), ((1, 2), (1, 2)),
           # same number of runs, run boundaries in different places (equal terminal strings when the runs are unformatted)
           ((0, 0), (0, 0)), ((1, 1), (1, 1)), ((0, 4), (4, 0))]

REPR_REDUCED = [
    {}, {"fg": 31}, {"bg": 42}, {"fg": 33, "bg": 44}, {"bold": True}, {"bold": False}, {"underline": True, "fg": 35},
    {"bold": True, "dark": True, "italic": True, "underline": True, "blink": True, "invert": True, "fg": 37, "bg": 40},
    {"invert": True, "bg": 47}, {"italic": True, "blink": False, "fg": 30}, {"dark": True}, {"fg": 36, "bold": False, "bg": 41},
    {"bold": False, "underline": False}, {"fg": 30, "bg": 40},
]
PATS = []


def instances(tier, seed):
    out = []
    T = 120 if tier == "quick" else 500
    L = 1 if tier == "quick" else 2
    for li in range(len(LAYOUTS)):
        out.append({"name": "eqff-layout%02d" % li, "fn": "eq_ff", "timeout": T, "params": {"layout": li, "L": L}})
    for ai in range(len(ATT)):
        out.append({"name": "eqfs-att%02d" % ai, "fn": "eq_fs", "timeout": T, "params": {"att": ai, "L": L}})
    # values derived by re-formatting a source that was hashed / compared / rendered before
    for li in (2, 3, 10, 12, 15):
        for d in range(len(DERIVS)):
            out.append({"name": "eqder-layout%02d-d%d" % (li, d), "fn": "eq_derived", "timeout": T, "params": {"layout": li, "L": L, "deriv": d}})
    for li in (3, 5, 6, 8, 9, 13, 18):
        out.append({"name": "eqterm-layout%02d" % li, "fn": "eq_term", "timeout": T, "params": {"layout": li, "L": L}})
    if tier == "quick":
        out.append({"name": "repr-reduced-K1", "fn": "repr_rt", "timeout": T, "params": {"K": 1, "set": "reduced", "L": 1}})
        for first in range(0, len(REPR_REDUCED), 2):
            out.append({"name": "repr-reduced-K2-f%d" % first, "fn": "repr_rt", "timeout": T,
                        "params": {"K": 2, "set": "reduced", "L": 1, "first": [first, first + 1]}})
    else:
        for fg in range(9):
            for bg in range(9):
                out.append({"name": "repr-all-fg%d-bg%d" % (fg, bg), "fn": "repr_rt", "timeout": T,
                            "params": {"K": 1, "set": "all", "fg": fg, "bg": bg, "L": 1}})
        for first in range(len(REPR_REDUCED)):
            out.append({"name": "repr-reduced-K2-f%d" % first, "fn": "repr_rt", "timeout": T,
                        "params": {"K": 2, "set": "reduced", "L": 2, "first": [first]}})
    return out


def _repr_patterns():
    import itertools
    if P["set"] == "reduced":
        K = P["K"]
        out = []
        for t in itertools.product(range(len(REPR_REDUCED)), repeat=K):
            if "first" in P and t[0] not in P["first"]:
                continue
            out.append(tuple(REPR_REDUCED[i] for i in t))
        return out
    out = []
    for s in itertools.product((0, 1, 2), repeat=6):
        a = {}
        if P["fg"]:
            a["fg"] = 29 + P["fg"]
        if P["bg"]:
            a["bg"] = 39 + P["bg"]
        for name, v in zip(STYLE_NAMES, s):
            if v:
                a[name] = (v == 1)
        out.append((a,))
    return out


def setup(params):
    if "set" in params:
        PATS[:] = _repr_cases()


def _mk(atts_idx, texts):
    from curtsies.formatstring import FmtStr, Chunk
    return FmtStr(*[Chunk(t, ATT[a]) for a, t in zip(atts_idx, texts)])


def _small(L, *ts):
    return all(len(t) <= L and all(c in "ab" for c in t) for t in ts)


def _coherent(f, g):
    """==, != and hash agree with the terminal strings; set / dict membership agrees"""
    same = str(f) == str(g)
    if (f == g) != same or (g == f) != same or (f != g) == same:
        return False
    if same:
        if hash(f) != hash(g):
            return False
    # (set / dict membership is decided by exactly these two operations; it is exercised on the real
    #  containers by the concrete twin - CrossHair's container models would deep-copy the operands)
    return True


def eq_ff(t0: str, t1: str, u0: str, u1: str) -> bool:
    """
    pre: _small(P["L"], t0, t1, u0, u1)
    post: _
    """
    la, lb = LAYOUTS[P["layout"]]
    f = _mk(la, [t0, t1])
    g = _mk(lb, [u0, u1])
    return verdict(_coherent(f, g), len(la) >= 1 and len(t0) >= 1)


def eq_fs(t0: str, s: str) -> bool:
    """
    pre: _small(P["L"], t0) and len(s) <= 3 and all(c in "ab" for c in s)
    post: _
    """
    f = _mk((P["att"],), [t0])
    same = str(f) == s
    ok = (f == s) == same and (s == f) == same and (f != s) != same and (s != f) != same
    if same:
        ok = ok and hash(f) == hash(s)
    return verdict(ok, len(t0) >= 1)


def eq_term(t0: str, t1: str, u0: str, u1: str) -> bool:
    """
    pre: _small(P["L"], t0, t1, u0, u1)
    post: _
    """
    # a plain str that IS the terminal string of some FmtStr g: f == s exactly when str(f) == s, either order, hashes agree
    la, lb = LAYOUTS[P["layout"]]
    f = _mk(la, [t0, t1])
    g = _mk(lb, [u0, u1])
    s = str(g) + ""
    same = str(f) == s
    ok = (f == s) == same and (s == f) == same and (f != s) != same
    if same:
        ok = ok and hash(f) == hash(s)
    return verdict(ok, same and len(t0) >= 1)


DERIVS = [("add", {"bold": True}), ("add", {"fg": 32}), ("remove", ("fg",)), ("remove", ("bold", "underline"))]


def _derive(f0, d):
    """(derived value, the same value built directly)"""
    from curtsies.formatstring import FmtStr, Chunk
    kind, arg = DERIVS[d]
    hash(f0), str(f0), f0 == f0, len(f0), f0.s          # the source was used as a key / compared / shown before
    if kind == "add":
        f = f0.copy_with_new_atts(**arg)
        g = FmtStr(*[Chunk(c.s, dict(dict(c.atts), **arg)) for c in f0.chunks])
    else:
        f = f0.new_with_atts_removed(*arg)
        g = FmtStr(*[Chunk(c.s, {k: v for k, v in dict(c.atts).items() if k not in arg}) for c in f0.chunks])
    return f, g


def eq_derived(t0: str, t1: str) -> bool:
    """
    pre: _small(P["L"], t0, t1)
    post: _
    """
    la, _ = LAYOUTS[P["layout"]]
    f0 = _mk(la, [t0, t1])
    f, g = _derive(f0, P["deriv"])
    ok = _coherent(f, g) and str(f) == str(g) and hash(f) == hash(str(g))
    return verdict(ok, len(la) >= 1 and len(t0) >= 1)


RTEXTS1 = ["", "a", "'", "\\", "\n", "\u00e9", '"', "a'b", "\x1b", "'\n", "'\\t", "it's\ta", "'\"\\"]
RTEXTS2 = ["", "a", "'"]


def _repr_cases():
    """(attribute tuple, text tuple) cases of this instance: repr() realises the text anyway, so texts are catalogue entries"""
    import itertools
    out = []
    for atts in _repr_patterns():
        if P["K"] == 1:
            for t in RTEXTS1:
                out.append((atts, (t,)))
        else:
            for t in itertools.product(RTEXTS2, RTEXTS1[:6] if P["L"] >= 2 else RTEXTS2):
                out.append((atts, t))
    return out


def repr_rt(sel: int) -> bool:
    """
    pre: 0 <= sel < len(PATS)
    post: _
    """
    from crosshair.core import realize
    from curtsies.formatstring import FmtStr, Chunk
    from curtsies import fmtfuncs
    atts, texts = PATS[realize(sel)]
    f = FmtStr(*[Chunk(t, a) for t, a in zip(texts, atts)])
    r = repr(f)
    try:
        g = eval(r, dict(vars(fmtfuncs)))
    except Exception:
        return verdict(False)
    if isinstance(g, str):
        g = FmtStr(Chunk(g))
    if not isinstance(g, FmtStr):
        return verdict(False)
    want = [(c, disp(ch.atts)) for ch in f.chunks for c in ch.s]
    got = [(c, disp(ch.atts)) for ch in g.chunks for c in ch.s]
    return verdict(got == want, len(texts[0]) >= 1)


# ---------------------------------------------------------------- concrete twin (plain CPython)
def concrete(fn, params, args):
    from curtsies.formatstring import FmtStr, Chunk
    from curtsies import fmtfuncs
    P.clear()
    P.update(params)
    if fn in ("eq_ff", "eq_term"):
        la, lb = LAYOUTS[params["layout"]]
        f = _mk(la, list(args[0:2]))
        g = _mk(lb, list(args[2:4]))
        other = g if fn == "eq_ff" else str(g) + ""
        same = str(f) == str(other)
        obs = {"f==o": f == other, "o==f": other == f, "f!=o": f != other, "hash_equal": hash(f) == hash(other),
               "o in {f}": other in {f}, "same_terminal_string": same}
        ok = obs["f==o"] == same and obs["o==f"] == same and obs["f!=o"] != same and (not same or obs["hash_equal"]) and obs["o in {f}"] == same
        return {"ok": ok, "observed": obs, "expected": "==, !=, hash and membership follow the terminal strings", "call": "f=%r other=%r" % (f, other)}
    if fn == "eq_derived":
        la, _ = LAYOUTS[params["layout"]]
        f0 = _mk(la, list(args[0:2]))
        f, g = _derive(f0, params["deriv"])
        obs = {"f==g": f == g, "hash_equal": hash(f) == hash(g), "hash_of_own_string": hash(f) == hash(str(f)), "g in {f}": g in {f},
               "same_terminal_string": str(f) == str(g)}
        return {"ok": all(obs.values()), "observed": obs, "expected": "the derived value equals, and hashes like, the same value built directly",
                "call": "source %r (hashed, compared, rendered) then %s%r" % (f0, DERIVS[params["deriv"]][0], DERIVS[params["deriv"]][1])}
    if fn == "eq_fs":
        f = _mk((params["att"],), [args[0]])
        s = args[1]
        same = str(f) == s
        obs = {"f==s": f == s, "s==f": s == f, "f!=s": f != s, "hash_equal": hash(f) == hash(s), "same_terminal_string": same}
        ok = obs["f==s"] == same and obs["s==f"] == same and obs["f!=s"] != same and (not same or obs["hash_equal"])
        return {"ok": ok, "observed": obs, "expected": "follow the terminal string", "call": "f=%r s=%r" % (f, s)}
    if fn == "repr_rt":
        atts, texts = _repr_cases()[args[0]]
        f = FmtStr(*[Chunk(t, a) for t, a in zip(texts, atts)])
        r = repr(f)
        try:
            g = eval(r, dict(vars(fmtfuncs)))
        except Exception as ex:
            return {"ok": False, "observed": "repr %r does not evaluate: %r" % (r, ex), "expected": "an expression over fmtfuncs names", "call": "runs %r" % (list(zip(texts, atts)),)}
        return {"ok": cells(g) == cells(f), "observed": "%r -> %s" % (r, fmt_cells(cells(g))), "expected": fmt_cells(cells(f)), "call": "runs %r" % (list(zip(texts, atts)),)}
    raise KeyError(fn)
