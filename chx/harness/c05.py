"""C05 - parsing a FmtStr's terminal string gives the same FmtStr back; parsing text interleaved
with supported SGR sequences yields what an ANSI terminal would display.

Real code: FmtStr.from_str, escseqparse.parse / peel_off_esc_code / token_type, parse_args,
Chunk.color_str / FmtStr.__str__ (round trip).
Symbolic: the texts (native CrossHair strings: every character symbolic, any code point except
ESC / 0x9b - newline, CR, tab, NUL, '[', digits, 'm' included); attribute patterns and
parameter skeletons are catalogue entries enumerated by the solver.
Oracle: per-character cells; for the grammar family the SGR state machine applied to the
skeleton's parameters (independent of the parser).
"""
import itertools

from chx import hsupport as H
from chx.hsupport import P, verdict
from chx.common import disp, cells, fmt_cells, sgr_interpret, STYLE_CODE

PROP = "C05"
FUNCTIONS = ["FmtStr.from_str", "escseqparse.parse", "escseqparse.peel_off_esc_code", "escseqparse.token_type", "parse_args",
             "Chunk.color_str", "FmtStr.__str__", "fmtstr"]
BOUNDS = ("symbolic text (any code point but ESC/0x9b): round trip of 1 run with <= 1 displayed attribute (text <= 2) and two 2-run "
          "layouts (text <= 1) [thorough: all 14 patterns, more pairs]; grammar: one SGR sequence with <= 1 parameter over all "
          "22 supported codes + empty, holes <= 1. Catalogue text (13 texts with newline, CR, '[', digits, 'm', ';', tab, "
          "non-ASCII; holes {'', a, newline, 3}): round trip of 1..3 runs over the 14-pattern reduced set (quick: sampled by "
          "stride), grammar with one sequence x 2 parameters (all 22x22), two sequences and three sequences over the covering set")
STUBS = ["CrossHair's regex model (engine patch: _Match.groupdict); violations are replayed with CPython's re",
         "independent SGR state machine as oracle"]

REDUCED = [
    {}, {"fg": 31}, {"bg": 42}, {"fg": 33, "bg": 44}, {"bold": True}, {"bold": False}, {"underline": True, "fg": 35},
    {"bold": True, "dark": True, "italic": True, "underline": True, "blink": True, "invert": True, "fg": 37, "bg": 40},
    {"invert": True, "bg": 47}, {"italic": True, "blink": False, "fg": 30}, {"dark": True}, {"fg": 36, "bold": True, "bg": 41},
    {"blink": True, "dark": True}, {"fg": 31, "bold": True},
]
SUPPORTED = [0, 1, 2, 3, 4, 5, 7] + list(range(30, 38)) + [39] + list(range(40, 48)) + [49]
COVER = [None, 0, 1, 4, 7, 31, 39, 44, 49]      # None = empty parameter list (ESC[m)
CASES = []


TEXTS = ["", "a", "\n", "a\nb", "[", "3", "m", ";1", " ", "\r\n", "\u00e9", "0m", "\t"]
HOLES = ["", "a", "\n", "3"]
SIMPLE = [0, 1, 2, 4, 5, 10]        # patterns with at most one displayed attribute: affordable with symbolic text


def instances(tier, seed):
    out = []
    T = 200 if tier == "quick" else 900
    # -- symbolic text (any code point): measured regex cost allows one escape-sequence pair in quick
    for a0 in SIMPLE:
        out.append({"name": "rt-sym-K1-a%02d" % a0, "fn": "roundtrip", "timeout": T, "cost": 5, "params": {"K": 1, "a": [a0], "L": 2}})
    out.append({"name": "rt-sym-K2-a04-05", "fn": "roundtrip", "timeout": T, "cost": 8, "params": {"K": 2, "a": [4, 5], "L": 1}})
    out.append({"name": "rt-sym-K2-a00-01", "fn": "roundtrip", "timeout": T, "cost": 8, "params": {"K": 2, "a": [0, 1], "L": 1}})
    if tier != "quick":
        for a0 in range(len(REDUCED)):
            if a0 not in SIMPLE:
                out.append({"name": "rt-sym-K1-a%02d" % a0, "fn": "roundtrip", "timeout": T, "cost": 9, "params": {"K": 1, "a": [a0], "L": 1}})
        for (a0, a1) in ((1, 2), (2, 1), (1, 13), (4, 1), (10, 4), (1, 1)):
            out.append({"name": "rt-sym-K2-a%02d-%02d" % (a0, a1), "fn": "roundtrip", "timeout": T, "cost": 9, "params": {"K": 2, "a": [a0, a1], "L": 1}})
    # -- catalogue texts (class representatives incl. newline, CR, '[', digits, 'm', ';'), richer structure
    for K in (1, 2, 3):
        nparts = {1: 1, 2: 14, 3: 14}[K]
        for part in range(nparts):
            out.append({"name": "rt-cat-K%d-p%02d" % (K, part), "fn": "roundtrip_cat", "timeout": T, "cost": 2,
                        "params": {"K": K, "part": part, "seed": seed,
                                   "limit": ({1: 200, 2: 100, 3: 60}[K] if tier == "quick" else {1: 200, 2: 2400, 3: 1500}[K])}})
    # -- values reached through the public re-formatting paths AFTER their source was rendered (history: memoised strings exist)
    for K in (1, 2):
        for part in range(0, 14, 2 if tier == "quick" else 1):
            out.append({"name": "rt-der-K%d-p%02d" % (K, part), "fn": "roundtrip_cat", "timeout": T, "cost": 2,
                        "params": {"K": K, "part": part, "seed": seed, "derive": True, "limit": 80 if tier == "quick" else 1500}})
    # -- grammar, symbolic holes: one sequence with <= 1 parameter
    one1 = [()] + [(a,) for a in SUPPORTED]
    for chunk in range(0, len(one1), 6):
        out.append({"name": "gr-sym-1seq-%02d" % chunk, "fn": "grammar", "timeout": T, "cost": 6,
                    "params": {"skel": "one1", "lo": chunk, "hi": chunk + 6}})
    # -- grammar, catalogue holes: up to 3 sequences
    for first in range(len(SUPPORTED) + 1):
        out.append({"name": "gr-cat-1x2-%02d" % first, "fn": "grammar_cat", "timeout": T, "cost": 2,
                    "params": {"skel": "one2", "first": first, "seed": seed, "limit": 60 if tier == "quick" else 400}})
    for c0 in range(len(COVER)):
        out.append({"name": "gr-cat-2seq-c%d" % c0, "fn": "grammar_cat", "timeout": T, "cost": 2,
                    "params": {"skel": "twotwo" if tier != "quick" else "two", "first": c0, "seed": seed, "limit": 100 if tier == "quick" else 2000}})
        out.append({"name": "gr-cat-3seq-c%d" % c0, "fn": "grammar_cat", "timeout": T, "cost": 2,
                    "params": {"skel": "three", "first": c0, "seed": seed, "limit": 80 if tier == "quick" else 2000}})
    return out


def witness_instances(fn, lst, tier):
    return lst[1:2]


def _skeletons():
    sk = P["skel"]
    cov1 = [() if a is None else (a,) for a in COVER]
    if sk == "one1":
        one1 = [()] + [(a,) for a in SUPPORTED]
        return [(s_,) for s_ in one1[P["lo"]:P["hi"]]]
    if sk == "one2":
        firsts = [()] + [(a,) for a in SUPPORTED]
        f = firsts[P["first"]]
        return [(f,)] + ([((f[0], b),) for b in SUPPORTED] if f else [])
    if sk == "two":
        return [(cov1[P["first"]], b) for b in cov1]
    if sk == "twotwo":
        cov2 = [()] + [(a,) for a in COVER if a is not None] + [(a, b) for a in COVER for b in COVER if a is not None and b is not None]
        return [(cov1[P["first"]], b) for b in cov2] + [(b, cov1[P["first"]]) for b in cov2]
    return [(cov1[P["first"]], b, c) for b in cov1 for c in cov1]


def _cases():
    """grammar cases of this instance: symbolic holes -> skeletons only; catalogue holes -> (skeleton, holes)"""
    sks = _skeletons()
    if P["skel"] == "one1":
        return sks
    out = []
    for sk in sks:
        for hs in itertools.product(HOLES if len(sk) < 3 else HOLES[:3], repeat=len(sk) + 1):
            out.append((sk, hs))
    return _limit(out)


def _limit(cases):
    """deterministic sample of at most P['limit'] cases (every k-th, offset chosen by the seed)"""
    lim = P.get("limit")
    if not lim or len(cases) <= lim:
        return cases
    k = -(-len(cases) // lim)
    return cases[(P.get("seed", 0) % k)::k]


DERIVS = [("add", {"bold": True}), ("add", {"fg": 32}), ("add", {"bg": 41, "underline": True}), ("remove", ("fg",)),
          ("remove", ("bold", "bg")), ("fmtstr", {"fg": 34}), ("add", {})]
DTEXTS = ["a", "a\nb", "[", "0m", ""]


def _rt_cases():
    K = P["K"]
    out = []
    n = 0
    if P.get("derive"):
        for pats in itertools.product(range(len(REDUCED)), repeat=K):
            if pats[0] != P["part"] and not (K == 1 and pats[0] == P["part"] + 1):
                continue
            for txt in itertools.product(range(len(DTEXTS)), repeat=K):
                for d in range(len(DERIVS)):
                    out.append((pats, txt, d))
        return _limit(out)
    for pats in itertools.product(range(len(REDUCED)), repeat=K):
        if K >= 2 and pats[0] != P["part"]:
            continue
        for txt in itertools.product(range(len(TEXTS)), repeat=K):
            out.append((pats, txt))
    return _limit(out)


def _derive(case):
    """a FmtStr reached by re-formatting a value that was already rendered and measured"""
    from curtsies.formatstring import FmtStr, Chunk, fmtstr
    pats, txt, d = case
    f0 = FmtStr(*[Chunk(DTEXTS[t], REDUCED[a]) for t, a in zip(txt, pats)])
    H.warm(f0)
    kind, arg = DERIVS[d]
    if kind == "add":
        return f0.copy_with_new_atts(**arg)
    if kind == "remove":
        return f0.new_with_atts_removed(*arg)
    return fmtstr(f0, **arg)


def setup(params):
    if "skel" in params:
        CASES[:] = _cases()
    elif "limit" in params:
        CASES[:] = _rt_cases()


def _okchars(*ts):
    return all(ord(c) != 27 and ord(c) != 0x9b for t in ts for c in t)


def _sym_cells(f):
    return [(c, disp(ch.atts)) for ch in f.chunks for c in ch.s]


def _cells_eq(a, b):
    if len(a) != len(b):
        return False
    for (c1, d1), (c2, d2) in zip(a, b):
        if d1 != d2 or c1 != c2:
            return False
    return True


def roundtrip(t0: str, t1: str, t2: str) -> bool:
    """
    pre: len(t0) <= P["L"] and len(t1) <= P["L"] and len(t2) <= P["L"]
    pre: (P["K"] >= 2 or len(t1) == 0) and (P["K"] >= 3 or len(t2) == 0)
    pre: _okchars(t0, t1, t2)
    post: _
    """
    from curtsies.formatstring import FmtStr, Chunk
    K = P["K"]
    f = FmtStr(*[Chunk(t, REDUCED[a]) for t, a in zip([t0, t1, t2][:K], P["a"])])
    s = str(f)
    g = FmtStr.from_str(s)
    return verdict(_cells_eq(_sym_cells(g), _sym_cells(f)), len(t0) >= 1 and (K == 1 or len(t1) >= 1))


def _apply(state, params):
    st = dict(state)
    for p in (params or (0,)):
        if p == 0:
            st = {}
        elif p in STYLE_CODE:
            st[STYLE_CODE[p]] = True
        elif 30 <= p <= 37:
            st["fg"] = p
        elif 40 <= p <= 47:
            st["bg"] = p
        elif p == 39:
            st.pop("fg", None)
        elif p == 49:
            st.pop("bg", None)
    return st


def _esc(params):
    return "\x1b[" + ";".join(str(p) for p in params) + "m"


def grammar(h0: str, h1: str, h2: str, h3: str, sel: int) -> bool:
    """
    pre: len(h0) <= 1 and len(h1) <= 1 and len(h2) <= 1 and len(h3) <= 1 and _okchars(h0, h1, h2, h3)
    pre: 0 <= sel < len(CASES)
    post: _
    """
    from crosshair.core import realize
    from curtsies.formatstring import FmtStr
    seqs = CASES[realize(sel)]
    holes = [h0, h1, h2, h3]
    s = holes[0]
    want = [(c, {}) for c in holes[0]]
    st = {}
    for i, params in enumerate(seqs):
        s = s + _esc(params) + holes[i + 1]
        st = _apply(st, params)
        want += [(c, dict(st)) for c in holes[i + 1]]
    for h in holes[len(seqs) + 1:]:
        if len(h):
            return True
    g = FmtStr.from_str(s)
    return verdict(_cells_eq(_sym_cells(g), want), len(h0) == 1 and len(h1) == 1)


def roundtrip_cat(s1: int, s2: int) -> bool:
    """
    pre: H.sel_ok(len(CASES), s1, s2)
    post: _
    """
    from curtsies.formatstring import FmtStr, Chunk
    case = H.pick(CASES, s1, s2)
    if P.get("derive"):
        f = _derive(case)
    else:
        pats, txt = case
        f = FmtStr(*[Chunk(TEXTS[t], REDUCED[a]) for t, a in zip(txt, pats)])
    g = FmtStr.from_str(str(f))
    return verdict(_cells_eq(_sym_cells(g), _sym_cells(f)), len(f.s) >= 2)


def grammar_cat(s1: int, s2: int) -> bool:
    """
    pre: H.sel_ok(len(CASES), s1, s2)
    post: _
    """
    from curtsies.formatstring import FmtStr
    seqs, holes = H.pick(CASES, s1, s2)
    s = holes[0]
    want = [(c, {}) for c in holes[0]]
    st = {}
    for i, params in enumerate(seqs):
        s = s + _esc(params) + holes[i + 1]
        st = _apply(st, params)
        want += [(c, dict(st)) for c in holes[i + 1]]
    g = FmtStr.from_str(s)
    return verdict(_cells_eq(_sym_cells(g), want), len(want) >= 2)


# ---------------------------------------------------------------- concrete twin (plain CPython)
def concrete(fn, params, args):
    from curtsies.formatstring import FmtStr, Chunk
    P.clear()
    P.update(params)
    if fn in ("roundtrip", "roundtrip_cat"):
        K = params["K"]
        if fn == "roundtrip_cat":
            case = H.pick_concrete(_rt_cases(), args[0], args[1])
            if params.get("derive"):
                f = _derive(case)
            else:
                pats, txt = case
                f = FmtStr(*[Chunk(TEXTS[t], REDUCED[a]) for t, a in zip(txt, pats)])
        else:
            f = FmtStr(*[Chunk(t, REDUCED[a]) for t, a in zip(list(args)[:K], params["a"])])
        s = str(f)
        call = "FmtStr.from_str(%r)  [= str(%r)]" % (s, f)
        try:
            g = FmtStr.from_str(s)
        except Exception as ex:
            return {"ok": False, "observed": "raised %r" % (ex,), "expected": fmt_cells(cells(f)), "call": call}
        return {"ok": cells(g) == cells(f), "observed": fmt_cells(cells(g)), "expected": fmt_cells(cells(f)), "call": call}
    if fn == "grammar_cat":
        seqs, holes = H.pick_concrete(_cases(), args[0], args[1])
        holes = list(holes) + [""] * 4
    else:
        holes = list(args[:4])
        seqs = _cases()[args[4]]
    s = holes[0]
    for i, prm in enumerate(seqs):
        s = s + _esc(prm) + holes[i + 1]
    if any(len(h) for h in holes[len(seqs) + 1:]):
        return {"ok": True, "observed": "unused hole", "call": "-"}
    r = sgr_interpret(s)
    call = "FmtStr.from_str(%r)" % s
    if r is None:
        return {"ok": None, "note": "oracle rejects the generated string %r" % s}
    want = [(c, disp(d)) for c, d in r[0]]
    try:
        g = FmtStr.from_str(s)
    except Exception as ex:
        return {"ok": False, "observed": "raised %r" % (ex,), "expected": fmt_cells(want), "call": call}
    return {"ok": cells(g) == want, "observed": fmt_cells(cells(g)), "expected": fmt_cells(want), "call": call}
