"""C20 - key naming modes and config-file key names are mutually consistent.

(a) modes: for the same symbolic bytes the three naming modes return None together, raise
    together and otherwise all return; 'bytes' returns exactly the bytes (instances of the
    C03 `decode` harness - the assertions are evaluated on the same paths).
(b) tables: there is no byte string with a curses-style name but no curtsies name
    (one z3 query over the live tables, n <= MAX_KEYPRESS_SIZE).
(c) config names: keymap[key] for symbolic keys of the documented forms maps to names the
    decoder can produce (= values of the live CURTSIES_NAMES, by C03's assertion 4 every
    table sequence that arrives whole is reported under its table name); "" -> (); invalid
    keys raise KeyError.
Real code: events.get_key/_key_name + live tables, configfile_keynames.KeyMap.__getitem__.
"""
import z3

from chx import hsupport as H
from chx.hsupport import P, verdict, sbool
from chx.harness import c03
from chx.domains.symtable import index_by_len, member_term
from crosshair.tracers import NoTracing

PROP = "C20"
FUNCTIONS = ["events.get_key", "events._key_name", "events.CURTSIES_NAMES/CURSES_NAMES (live data)",
             "configfile_keynames.KeyMap.__getitem__", "configfile_keynames.SPECIALS"]
BOUNDS = ("(a) as C03: all byte strings of length 1..4 under utf-8 (quick; thorough: all lengths and encodings as C03); "
          "(b) all byte strings up to MAX_KEYPRESS_SIZE; (c) key = 'C-'+c, 'M-'+c with c any character below U+0100 (thorough U+0300), 'F'+number 0..30 (thorough 0..300), the specials, '', and arbitrary strings of length <= 3 over a 9-character alphabet for the invalid side")
STUBS = c03.STUBS + ["valid configuration names: C-<a..z>, M-<printable non-space ASCII> (config files strip whitespace), F1..F12, "
                     "the SPECIALS; producible names = values of the live CURTSIES_NAMES"]

decode = c03.decode
_cls_ok = c03._cls_ok
_restrict_ok = c03._restrict_ok


def instances(tier, seed):
    out = []
    T = 150 if tier == "quick" else 900
    for i in c03.instances(tier, seed):
        pr = i["params"]
        if tier == "quick" and not (pr["enc"] == "utf8" and pr["n"] <= 3):
            continue
        out.append(dict(i, name="modes-" + i["name"]))
    out.append({"name": "tables-subset", "fn": "subset", "timeout": T, "params": {}})
    for form in ("C", "M", "F", "short"):
        out.append({"name": "keymap-%s" % form, "fn": "keymap", "timeout": T, "cost": 20,
                    "params": {"form": form, "cmax": 0x100 if tier == "quick" else 0x300, "dmax": 30 if tier == "quick" else 300}})
    return out


def witness_instances(fn, lst, tier):
    if fn == "decode":
        return c03.witness_instances(fn, [dict(i) for i in lst], tier)[:2]
    return lst[:1]


def setup(params):
    if "enc" in params:
        c03.setup(params)
    else:
        c03._load_raw()
        NAMES.clear()
        NAMES.update(c03.RAW["curtsies"].values())


NAMES = set()
ALPHA = "CMF-1a[ "


def subset(dummy: int) -> bool:
    """
    pre: dummy == 0
    post: _
    """
    # exists seq: seq in CURSES_NAMES and seq not in CURTSIES_NAMES  -- must be unsat for every length
    with NoTracing():
        for n in range(0, c03.RAW["max"] + 2):
            B = [z3.Int("s%d" % i) for i in range(n)]
            s = z3.Solver()
            for b in B:
                s.add(b >= 0, b <= 255)
            s.add(c03.tab("curses", B), z3.Not(c03.tab("curtsies", B)))
            r = s.check()
            if str(r) != "unsat":
                H.NOTES.append("curses-only sequence: %s" % (s.model() if str(r) == "sat" else r))
                return verdict(False)
    return verdict(True)


def _valid(form, c, digits):
    if form == "C":
        return "a" <= c <= "z"
    if form == "M":
        return "!" <= c <= "~"
    return False


def keymap(c: str, d: int, k: str) -> bool:
    """
    pre: len(c) == 1 and 0 <= ord(c) < P["cmax"]
    pre: 0 <= d <= P["dmax"]
    pre: len(k) <= 3 and all(ch in ALPHA for ch in k)
    post: _
    """
    from curtsies.configfile_keynames import keymap as km, SPECIALS
    form = P["form"]
    if form == "C":
        key = "C-" + c
        valid = ("a" <= c <= "z") or key in SPECIALS
    elif form == "M":
        key = "M-" + c
        valid = "!" <= c <= "~"
    elif form == "F":
        key = "F" + str(d)
        valid = 1 <= d <= 12
    else:
        key = k
        valid = k == "" or k in SPECIALS
        # short strings that happen to be of a valid form are skipped (covered by the other instances)
        if len(k) >= 2 and (k[:2] in ("C-", "M-") or k[0] == "F"):
            return True
    try:
        names = km[key]
    except KeyError:
        return verdict(not valid, False)
    if key == "":
        return verdict(names == (), False)
    if not valid:
        return verdict(True, False)      # names for keys outside the documented forms are not constrained
    if not isinstance(names, tuple) or len(names) == 0:
        return verdict(False)
    ok = True
    for nm in names:
        if nm not in NAMES:
            ok = False
    return verdict(ok, True)


# ---------------------------------------------------------------- concrete twin (plain CPython)
def concrete(fn, params, args):
    if fn in ("decode", "tablecase"):
        return c03.concrete(fn, params, args)
    from curtsies import events
    from curtsies.configfile_keynames import keymap as km, SPECIALS
    c03._load_raw()
    if fn == "subset":
        only = sorted(set(c03.RAW["curses"]) - set(c03.RAW["curtsies"]))
        return {"ok": not only, "observed": "curses-only sequences: %r" % only[:5], "expected": "none", "call": "CURSES_NAMES keys <= CURTSIES_NAMES keys"}
    names = set(c03.RAW["curtsies"].values())
    c, d, k = args
    form = params["form"]
    if form == "C":
        key = "C-" + c
        valid = ("a" <= c <= "z") or key in SPECIALS
    elif form == "M":
        key = "M-" + c
        valid = "!" <= c <= "~"
    elif form == "F":
        key = "F" + str(d)
        valid = 1 <= d <= 12
    else:
        key = k
        valid = k == "" or k in SPECIALS
        if len(k) >= 2 and (k[:2] in ("C-", "M-") or k[0] == "F"):
            return {"ok": True, "observed": "skipped", "call": repr(k)}
    call = "keymap[%r]" % key
    try:
        got = km[key]
    except KeyError:
        return {"ok": not valid, "observed": "KeyError", "expected": "names" if valid else "KeyError", "call": call}
    except Exception as ex:
        return {"ok": False, "observed": repr(ex), "expected": "names or KeyError", "call": call}
    if key == "":
        return {"ok": got == (), "observed": repr(got), "expected": "()", "call": call}
    if not valid:
        return {"ok": True, "observed": repr(got), "call": call}
    missing = [n for n in got if n not in names]
    return {"ok": not missing and len(got) > 0, "observed": "%r; never produced by the decoder: %r" % (got, missing),
            "expected": "names that are values of CURTSIES_NAMES", "call": call}


def extra_concrete_cases(tier="quick"):
    """both tables are finite data: every entry driven in all three naming modes and every encoding (same cuts, bytes naming
    returns the bytes, table names)"""
    return [c for c in c03.extra_concrete_cases(tier) if c[0] == "tablecase"]


def region_of(fn, params, args):
    if fn == "decode":
        return c03.region_of(fn, params, args)
    return None
