"""C08 - Input returns every byte and triggered event exactly once, in order.

Real code: Input.send / _send / find_key, _wait_for_read_ready_or_timeout, _nonblocking_read,
unget_bytes, event_trigger / scheduled_event_trigger / threadsafe_event_trigger,
ReplacedSigIntHandler, Nonblocking, events.get_key (bytes naming).
Environment: OS model (tty input buffer, pipes, select with a schedule of things that happen while
a request is blocked, monotone clock).  Single-threaded: callbacks and SIGINT "from another thread"
fire at model-call granularity - before a request, between requests, or inside a blocked select.
Symbolic: the HISTORY - a bounded list of steps (arrivals from a chunk catalogue, unget_bytes,
trigger callbacks, clock ticks, requests with timeout 0 / small / None, things scheduled to happen
during the next blocked request) - is a tuple of selectors enumerated exhaustively by the solver;
a realised history runs on concrete values.
Oracle: a reference queue model (conservation of bytes, per-source order, due times, no None
while something is deliverable, paste events).
"""
import itertools

from chx import hsupport as H
from chx.hsupport import P, verdict
from chx.domains import osmodel
from chx.domains.osmodel import OS, FakeStream

PROP = "C08"
FUNCTIONS = ["Input.send", "Input._send", "Input._send.find_key", "Input._wait_for_read_ready_or_timeout", "Input._nonblocking_read",
             "Input.unget_bytes", "Input.event_trigger", "Input.scheduled_event_trigger", "Input.threadsafe_event_trigger",
             "Input.sigint_handler", "ReplacedSigIntHandler", "Nonblocking", "events.get_key", "Input.__enter__/__exit__"]
BOUNDS = ("histories of up to 3 steps (quick; thorough 4) over 30 step kinds, followed by a drain (requests with timeout 0 until "
          "None); chunks: ASCII key, 2- / 3- / 4-byte characters, escape sequences (whole, and split over two arrivals), two keys "
          "at once, a burst of 1030 bytes of 2-byte characters (odd alignment against READ_SIZE) and a burst of escape "
          "sequences; paste_threshold in {default, 1, 0, None}; sigint_event on/off; bytes naming (so that byte conservation "
          "is observable)")
STUBS = ["OS model (select / os.read / pipes / clock / signal bound into curtsies.input and curtsies.termhelpers only); on a "
         "timeout the model clock moves 1 ms past the deadline (a real clock never reads exactly the deadline)",
         "single-threaded: 'another thread' acts between model calls or inside a blocked select; preemption between two "
         "arbitrary bytecodes is outside", "characters are never split by an ARRIVAL (only by the READ_SIZE boundary)"]

BURST2 = ("é".encode("utf8") * 515)[:1030]                  # 515 two-byte characters
BURST2_ODD = b"a" + ("é".encode("utf8") * 515)                # the 1024-byte read boundary falls inside a character
BURSTESC = b"\x1b[A" * 400                                       # 1200 bytes of escape sequences (boundary inside a sequence)
CHUNKS = {"a": b"a", "e2": "é".encode("utf8"), "e3": "€".encode("utf8"), "e4": "😀".encode("utf8"), "up": b"\x1b[A",
          "f5": b"\x1b[15~", "ab": b"ab", "esc_": b"\x1b[", "A_": b"A", "burst": BURST2_ODD, "burstesc": BURSTESC, "nine": b"abcdefghi"}

STEPS = (
    [("arrive", c) for c in ("a", "e2", "e3", "e4", "up", "f5", "ab", "esc_", "A_", "burst", "burstesc", "nine")]
    + [("unget", "ab"), ("unget", "e3")]
    + [("event", 0), ("event", 1), ("ts_event", 0)]
    + [("sched", -1.0), ("sched", 0.5), ("sched", 0.2)]
    + [("tick", 0.6)]
    + [("send", 0), ("send", 0.3), ("send", None)]
    + [("during_arrive", "a"), ("during_arrive", "up"), ("during_ts", 0), ("during_sigint", 0)]
    + [("during_ts_preempt", 0), ("during_ts2", 0)]
)
UNITS = {"a": [b"a"], "e2": ["é".encode("utf8")], "e3": ["€".encode("utf8")], "e4": ["😀".encode("utf8")], "up": [b"\x1b[A"],
         "f5": [b"\x1b[15~"], "ab": [b"a", b"b"], "burst": [b"a"] + ["é".encode("utf8")] * 515, "burstesc": [b"\x1b[A"] * 400,
         "nine": [bytes([c]) for c in b"abcdefghi"]}
CASES = []


def instances(tier, seed):
    import random
    out = []
    T = 300 if tier == "quick" else 600
    L = 3 if tier == "quick" else 4
    for thr in ("default", 1, None, 0):
        for sig in (False, True):
            if tier == "quick" and sig and thr != "default":
                continue
            for first in range(len(STEPS)):
                out.append({"name": "hist%s-thr%s-%s-first%02d-%s" % ("" if tier == "quick" else "4", thr, "sig" if sig else "nosig", first, "%s:%s" % STEPS[first]),
                            "fn": "history", "timeout": T, "cost": 2,
                            "params": {"thr": thr, "sig": sig, "first": first, "L": L, "seed": seed,
                                       "limit": (900 if (thr == "default" and not sig) else 250) if tier == "quick" else 2500}})
    if tier != "quick":
        # thorough = the quick instances (all / sampled 3-step histories) + 4-step histories, 2500 seeded ones per instance
        out = instances("quick", seed) + out
    return out


def witness_instances(fn, lst, tier):
    return [i for i in lst if i["params"]["first"] == 0 and i["params"]["thr"] == "default"][:1]


def _histories():
    first = STEPS[P["first"]]
    L = P["L"]
    rest_steps = list(STEPS)
    out = [(first,)]
    for n in range(1, L):
        for t in itertools.product(range(len(rest_steps)), repeat=n):
            out.append((first,) + tuple(rest_steps[i] for i in t))
    lim = P.get("limit")
    if lim and len(out) > lim:
        k = -(-len(out) // lim)
        short = [h for h in out if len(h) <= 2]
        import random
        rnd = random.Random(P.get("seed", 0) * 1000 + P["first"])
        long_ = [h for h in out if len(h) > 2]
        out = short[:lim // 2] + rnd.sample(long_, min(len(long_), lim - min(len(short), lim // 2)))
    return out


def setup(params):
    CASES[:] = _histories()


class Ev:
    def __init__(self, tag, **kw):
        self.tag = tag
        self.when = kw.get("when")

    def __repr__(self):
        return "<Ev %s>" % (self.tag,)


def run_history(steps, thr, sig):
    """returns None when the reference queue model is satisfied, else a description"""
    import curtsies.input as ci
    from curtsies import events
    def default_int_handler(signum, frame):
        raise KeyboardInterrupt

    m = OS(tty_fd=0, sigint=default_int_handler)
    osmodel.install(m)
    try:
        kw = {}
        if thr != "default":
            kw["paste_threshold"] = thr
        inp = ci.Input(in_stream=FakeStream(0), keynames=events.Keynames.BYTES, sigint_event=sig, **kw)
        arrived = bytearray()          # every byte that reached the Input (tty + unget), in order of arrival per source
        returned = bytearray()
        fired = {0: [], 1: [], "ts": [], "sched": []}
        got = {0: [], 1: [], "ts": [], "sched": []}
        sigints_sent = [0]
        sigints_got = [0]
        counter = [0]
        # keypress units in arrival order (tracked while every arrival is made of whole keypresses)
        units = []
        track = [all(not (k in ("arrive", "unget", "during_arrive") and a in ("esc_", "A_")) for k, a in steps)]
        uptr = [0]

        def mk(tag):
            counter[0] += 1
            if tag == "ts":
                # recorded when the callback constructs it (the callback may run in another thread, see during_ts_preempt)
                def make(**k):
                    ev = Ev((tag, counter[0]), **k)
                    fired["ts"].append(ev)
                    return ev
                return make
            return lambda **k: Ev((tag, counter[0]), **k)

        trig = {0: None, 1: None}
        ts_cb = [None]
        sched_cb = [None]
        problems = []
        pending_ts = []

        def finish_threads():
            for o in pending_ts:
                while not o.done:
                    o.resume()
            m.other = None

        def hard_deliverable():
            return bool(inp.queued_events or inp.queued_interrupting_events or inp.sigints
                        or any(w < m.clock for (w, _) in inp.queued_scheduled_events))

        def deliverable():
            if m.tty_in or inp.unprocessed_bytes:
                return True
            if inp.queued_events or inp.queued_interrupting_events or inp.sigints:
                return True
            return any(w < m.clock for (w, _) in inp.queued_scheduled_events)

        def note(r, t_call, timeout, was_deliverable):
            if r is None:
                if deliverable() and not _only_partial(inp, m):
                    problems.append("request returned None while something was deliverable")
                if timeout is None:
                    problems.append("request without timeout returned None")
                elif m.clock - t_call < timeout - 1e-9 and not was_deliverable:
                    problems.append("request returned None after %.3f s, before its timeout %.3f" % (m.clock - t_call, timeout))
                return
            if was_deliverable and m.clock - t_call > 1e-9:
                problems.append("request waited %.3f s although something was already deliverable" % (m.clock - t_call))
            items = r.events if isinstance(r, events.PasteEvent) else [r]
            if isinstance(r, events.PasteEvent):
                if thr is None:
                    problems.append("paste event although paste_threshold is None")
                if not all(isinstance(x, bytes) for x in items):
                    problems.append("paste event holds something that is not a keypress")
            for it in items:
                if isinstance(it, bytes):
                    returned.extend(it)
                    if track[0]:
                        if uptr[0] < len(units) and units[uptr[0]] == it:
                            uptr[0] += 1
                        else:
                            if isinstance(r, events.PasteEvent):
                                problems.append("paste event does not hold the burst's keypresses: got %r where %r arrived" % (it, units[uptr[0]] if uptr[0] < len(units) else None))
                            track[0] = False
                elif isinstance(it, events.SigIntEvent):
                    sigints_got[0] += 1
                elif isinstance(it, Ev):
                    src = it.tag[0]
                    got[src].append(it)
                    if src == "sched" and it.when > m.clock + 1e-9:
                        problems.append("scheduled event returned %.3f s before its time" % (it.when - m.clock))
                    if src == "sched":
                        # time order among the scheduled events that are pending at this moment
                        pend = [e for e in fired["sched"] if not any(e is g for g in got["sched"])]
                        if any(e.when < it.when - 1e-9 for e in pend):
                            problems.append("scheduled event returned while one with an earlier time was pending")
                        # equal times: the events of one trigger come out in trigger order
                        idx = [i for i, e in enumerate(fired["sched"]) if e is it]
                        if idx and any(abs(e.when - it.when) <= 1e-9 and not any(e is g for g in got["sched"][:-1])
                                       for e in fired["sched"][:idx[0]]):
                            problems.append("scheduled events with equal times returned out of trigger order")
                else:
                    problems.append("unexpected item %r" % (it,))

        with inp:
            for kind, arg in steps:
                if kind == "arrive":
                    m.tty_in.extend(CHUNKS[arg])
                    arrived.extend(CHUNKS[arg])
                    units.extend(UNITS.get(arg, []))
                elif kind == "unget":
                    # somebody else (e.g. the cursor query of a window) read from the stream and hands the bytes back:
                    # such a reader gets everything that was pending on the tty, plus a new chunk, in stream order
                    data = bytes(m.tty_in) + CHUNKS[arg]
                    del m.tty_in[:]
                    arrived.extend(CHUNKS[arg])
                    units.extend(UNITS.get(arg, []))
                    inp.unget_bytes(data)
                elif kind == "event":
                    if trig[arg] is None:
                        trig[arg] = inp.event_trigger(mk(arg))
                    n0 = len(inp.queued_events)
                    trig[arg]()
                    fired[arg].append(inp.queued_events[n0])
                elif kind == "ts_event":
                    if ts_cb[0] is None:
                        ts_cb[0] = inp.threadsafe_event_trigger(mk("ts"))
                    ts_cb[0]()
                elif kind == "sched":
                    if sched_cb[0] is None:
                        sched_cb[0] = inp.scheduled_event_trigger(mk("sched"))
                    n0 = len(inp.queued_scheduled_events)
                    sched_cb[0](m.clock + arg)
                    fired["sched"].append(inp.queued_scheduled_events[n0][1])
                elif kind == "tick":
                    m.clock += arg
                elif kind == "during_arrive":
                    def act(mm, c=CHUNKS[arg], u=UNITS.get(arg, [])):
                        mm.tty_in.extend(c)
                        arrived.extend(c)
                        units.extend(u)
                    m.schedule.append((m.clock + 0.1, act))
                elif kind == "during_ts":
                    if ts_cb[0] is None:
                        ts_cb[0] = inp.threadsafe_event_trigger(mk("ts"))

                    def act(mm):
                        ts_cb[0]()
                    m.schedule.append((m.clock + 0.1, act))
                elif kind == "during_ts2":
                    # two callbacks fire before the blocked request gets to run again
                    if ts_cb[0] is None:
                        ts_cb[0] = inp.threadsafe_event_trigger(mk("ts"))

                    def act(mm):
                        ts_cb[0]()
                        ts_cb[0]()
                    m.schedule.append((m.clock + 0.1, act))
                elif kind == "during_ts_preempt":
                    # the callback runs in a second (real) thread that is descheduled right after its write to the wake-up
                    # pipe; the blocked request runs until it blocks again or returns, then the thread continues
                    if ts_cb[0] is None:
                        ts_cb[0] = inp.threadsafe_event_trigger(mk("ts"))

                    def act(mm):
                        def body():
                            ts_cb[0]()

                        mm.other = osmodel.OtherThread(body)
                        mm.preempt_after_write = True
                        pending_ts.append(mm.other)
                        mm.other.resume()
                    m.schedule.append((m.clock + 0.1, act))
                elif kind == "during_sigint":
                    def act(mm):
                        sigints_sent[0] += 1
                        if mm.wakeup >= 0 and mm.wakeup in mm.wpipe:
                            mm.pipes[mm.wpipe[mm.wakeup]].extend(bytes([2]))
                        h = mm.sigint
                        if callable(h):
                            h(2, None)
                    m.schedule.append((m.clock + 0.1, act))
                elif kind == "send":
                    t0 = m.clock
                    was = deliverable()
                    # a burst larger than the threshold that this request will read in one go must come back as ONE paste event
                    expect_paste = (inp.paste_threshold is not None and not inp.unprocessed_bytes and not hard_deliverable()
                                    and min(len(m.tty_in), ci.READ_SIZE) > inp.paste_threshold)
                    try:
                        r = inp.send(arg)
                    except KeyboardInterrupt:
                        if sig:
                            problems.append("KeyboardInterrupt although sigint_event=True")
                        sigints_got[0] += 1       # the interrupt reached the caller as the exception
                        continue
                    except RuntimeError as ex:
                        if str(ex).startswith("model:"):
                            finish_threads()
                            if hard_deliverable():
                                return "request blocks (no timeout, nothing further happens) while an event is deliverable"
                            return None      # this history would block forever: not a case
                        raise
                    finally:
                        finish_threads()
                    if expect_paste and not isinstance(r, events.PasteEvent):
                        problems.append("a burst larger than paste_threshold=%r was read in one go but came back as %r, not as a paste event" % (inp.paste_threshold, r))
                    note(r, t0, arg, was)
            # drain: everything still pending must come out, nothing twice
            finish_threads()
            for _ in range(3000):
                t0 = m.clock
                was = deliverable()
                m.schedule = [s for s in m.schedule if False]      # nothing further happens
                try:
                    r = inp.send(0)
                except KeyboardInterrupt:
                    sigints_got[0] += 1
                    continue
                if r is None:
                    pend = [e for (w, e) in inp.queued_scheduled_events]
                    if pend:
                        m.clock = max(w for (w, e) in inp.queued_scheduled_events) + 0.01
                        continue
                    note(r, t0, 0, was)
                    break
                note(r, t0, 0, was)
            else:
                problems.append("drain did not terminate")
        if bytes(returned) != bytes(arrived):
            problems.append("bytes returned %r... != bytes arrived %r... (lengths %d / %d)" % (bytes(returned[:24]), bytes(arrived[:24]), len(returned), len(arrived)))
        for src in fired:
            if src == "sched":
                # exactly once each (time order was checked when each one was returned)
                if sorted(id(x) for x in got[src]) != sorted(id(x) for x in fired[src]):
                    problems.append("events of source 'sched': returned %r, fired %r" % (got[src], fired[src]))
            elif [id(x) for x in got[src]] != [id(x) for x in fired[src]]:
                problems.append("events of source %r: returned %r, fired %r" % (src, got[src], fired[src]))
        if sig and sigints_got[0] != sigints_sent[0]:
            problems.append("SIGINTs: %d sent, %d returned" % (sigints_sent[0], sigints_got[0]))
        return "; ".join(problems[:3]) if problems else None
    finally:
        osmodel.uninstall()


def _only_partial(inp, m):
    return False


def history(s1: int, s2: int) -> bool:
    """
    pre: H.sel_ok(len(CASES), s1, s2)
    post: _
    """
    steps = H.pick(CASES, s1, s2)
    from crosshair.tracers import NoTracing
    with NoTracing():
        try:
            res = run_history(steps, P["thr"], P["sig"])
        except Exception as ex:      # noqa - a request must not raise
            res = "a request raised %r" % (ex,)
        if res is not None and H.EXCL:
            res = _filter_known(res, steps)
    return verdict(res is None, len(steps) >= 3)


def _filter_known(res, steps):
    # known finding of C03 (shared): a pending escape-sequence prefix followed by a byte >= 0x80 makes get_key raise
    if "C03-prefix-then-nonascii" in H.EXCL and "UnicodeDecodeError" in res and ("arrive", "esc_") in steps:
        return None
    return res


# ---------------------------------------------------------------- real-OS replay (pty) where the history is expressible
def real_history(steps, thr, sig):
    """the same history against the real OS on a pty: arrivals are written to the pty master, clock ticks are real
    sleeps, requests without timeout get 1.5 s.  Only conservation / order / exceptions are judged (not timing).
    returns None, a description, or 'n/a' (steps that act inside a blocked select are not expressible without threads)"""
    import os
    import time as rtime
    import tty as rtty
    import curtsies.input as ci
    from curtsies import events
    if any(k.startswith("during_") for k, _ in steps):
        return "n/a"
    master, slave = os.openpty()
    rtty.setraw(master)
    stream = os.fdopen(slave, "rb+", buffering=0)
    saved_enc = ci.getpreferredencoding
    ci.getpreferredencoding = lambda: "utf8"
    try:
        kw = {}
        if thr != "default":
            kw["paste_threshold"] = thr
        inp = ci.Input(in_stream=stream, keynames=events.Keynames.BYTES, sigint_event=sig, **kw)
        arrived = bytearray()
        returned = bytearray()
        fired = {0: [], 1: [], "ts": [], "sched": []}
        got = {0: [], 1: [], "ts": [], "sched": []}
        problems = []
        trig = {0: None, 1: None}
        ts_cb = [None]
        sched_cb = [None]

        def mk(tag):
            return lambda **k: Ev((tag, 0), **k)

        def note(r):
            if r is None:
                return
            items = r.events if isinstance(r, events.PasteEvent) else [r]
            for it in items:
                if isinstance(it, bytes):
                    returned.extend(it)
                elif isinstance(it, Ev):
                    got[it.tag[0]].append(it)
                    if it.tag[0] == "sched" and it.when > rtime.time() + 1e-3:
                        problems.append("scheduled event returned before its time")

        with inp:
            for kind, arg in steps:
                if kind == "arrive":
                    os.write(master, CHUNKS[arg])
                    arrived.extend(CHUNKS[arg])
                    rtime.sleep(0.02)
                elif kind == "unget":
                    import select as rselect
                    data = b""
                    while rselect.select([slave], [], [], 0.05)[0]:
                        data += os.read(slave, 4096)
                    arrived.extend(CHUNKS[arg])
                    inp.unget_bytes(data + CHUNKS[arg])
                elif kind == "event":
                    if trig[arg] is None:
                        trig[arg] = inp.event_trigger(mk(arg))
                    n0 = len(inp.queued_events)
                    trig[arg]()
                    fired[arg].append(inp.queued_events[n0])
                elif kind == "ts_event":
                    if ts_cb[0] is None:
                        ts_cb[0] = inp.threadsafe_event_trigger(mk("ts"))
                    n0 = len(inp.queued_interrupting_events)
                    ts_cb[0]()
                    fired["ts"].append(inp.queued_interrupting_events[n0])
                elif kind == "sched":
                    if sched_cb[0] is None:
                        sched_cb[0] = inp.scheduled_event_trigger(mk("sched"))
                    n0 = len(inp.queued_scheduled_events)
                    sched_cb[0](rtime.time() + arg)
                    fired["sched"].append(inp.queued_scheduled_events[n0][1])
                elif kind == "tick":
                    rtime.sleep(arg)
                elif kind == "send":
                    note(inp.send(1.5 if arg is None else arg))
            for _ in range(3000):
                r = inp.send(0.05)
                if r is None:
                    if inp.queued_scheduled_events:
                        rtime.sleep(0.6)
                        continue
                    break
                note(r)
        if bytes(returned) != bytes(arrived):
            problems.append("bytes returned %r... != bytes arrived %r... (lengths %d / %d)" % (bytes(returned[:24]), bytes(arrived[:24]), len(returned), len(arrived)))
        for src in fired:
            if src == "sched":
                if sorted(id(x) for x in got[src]) != sorted(id(x) for x in fired[src]):
                    problems.append("events of source 'sched': returned %r, fired %r" % (got[src], fired[src]))
            elif [id(x) for x in got[src]] != [id(x) for x in fired[src]]:
                problems.append("events of source %r: returned %r, fired %r" % (src, got[src], fired[src]))
        return "; ".join(problems[:3]) if problems else None
    except Exception as ex:
        return "a request raised %r" % (ex,)
    finally:
        ci.getpreferredencoding = saved_enc
        for c in (stream.close, lambda: os.close(master)):
            try:
                c()
            except OSError:
                pass


def _conservation(res):
    return bool(res) and any(k in res for k in ("bytes returned", "events of source", "a request raised", "paste event"))


# ---------------------------------------------------------------- concrete twin
def concrete(fn, params, args):
    if fn in ("decode", "tablecase"):
        from chx.harness import c03
        return c03.concrete(fn, params, args)       # witness of the shared known finding C03-prefix-then-nonascii
    P.clear()
    P.update(params)
    if fn == "history_explicit":
        steps = [tuple(x) for x in args[0]]
    else:
        steps = H.pick_concrete(_histories(), args[0], args[1])
    try:
        res = run_history(steps, params["thr"], params["sig"])
    except Exception as ex:
        import traceback
        tb = traceback.extract_tb(ex.__traceback__)
        where = "%s:%d" % (tb[-1].filename.split("/")[-1], tb[-1].lineno)
        if "/curtsies/" in tb[-1].filename or any("/curtsies/" in f.filename for f in tb[-3:]):
            res = "a request raised %r at %s" % (ex, where)
        else:
            raise
    real = "n/a"
    if res is not None and _conservation(res) and "paste event does not hold" not in res:
        real = real_history(steps, params["thr"], params["sig"])
        if real != "n/a" and not _conservation(real):
            return {"ok": None, "harness_error": True, "note": "OS model says %r, real pty says %r" % (res, real)}
    show = [(k, (a if not isinstance(a, str) or len(CHUNKS.get(a, b"")) < 20 else a + "(%d bytes)" % len(CHUNKS[a]))) for k, a in steps]
    region = None
    if res is not None and "UnicodeDecodeError" in res and ("arrive", "esc_") in steps:
        region = "C03-prefix-then-nonascii"
    return {"ok": res is None, "observed": res, "real_os_replay": real, "known_region": region, "expected": "every byte and event exactly once, in order; no early None",
            "call": "Input(paste_threshold=%s, sigint_event=%r): %r then drain" % (params["thr"], params["sig"], show)}


def region_of(fn, params, args):
    return concrete(fn, params, args).get("known_region")
