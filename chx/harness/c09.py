"""C09 - FmtStr.splice / append replace exactly the requested range and nothing else.

Real code: FmtStr.splice, divides, append, fmtstr/from_str/copy_with_new_atts (for str `new`),
Chunk.__init__, FmtStr.__len__.
Domain: SegStr - run lengths, start, end are UNBOUNDED symbolic integers; K (number of runs)
and the shape of `new` are fixed per instance.
"""
import z3

from chx import hsupport as H
from chx.hsupport import P, verdict, flat_at, same, sbool
from chx.domains.segstr import SegStr, zint, src_text, install_space_mul
from crosshair.tracers import NoTracing

PROP = "C09"
FUNCTIONS = ["FmtStr.splice", "FmtStr.append", "FmtStr.divides", "FmtStr.__len__", "Chunk.__init__",
             "fmtstr", "FmtStr.from_str", "FmtStr.copy_with_new_atts", "parse_args"]
BOUNDS = ("number of runs K of f fixed per instance (quick 0..4, thorough 0..6); `new` = plain str, or FmtStr with "
          "0/1/2 runs; run lengths n_i >= 0, start, end (0 <= start <= end) and the compared position p are unbounded "
          "mathematical integers; texts are any ESC/CSI-free strings (SegStr sources)")
STUBS = ["SegStr text domain (characters abstract, lengths symbolic); position-function oracle",
         "native family: CrossHair's own symbolic str (characters symbolic, each text <= 2 (quick) / 3 (thorough) long) so that "
         "code paths that compare characters are covered too"]

ATTS = [{"fg": 31}, {"bold": True}, {"bg": 44}, {"underline": True}, {"fg": 32, "bold": True}, {"invert": True}]
ATTS_SHARED = [{"fg": 31}, {"fg": 31}, {"bg": 44}, {"bg": 44}, {"fg": 31}, {"fg": 31}]
NEW_ATTS = [{"fg": 35}, {"bg": 41, "blink": True}]
NEW_SID = [10, 11]


def instances(tier, seed):
    out = []
    ks = range(0, 5) if tier == "quick" else range(0, 7)
    for K in ks:
        for new in ("str", "fmt1", "fmt2", "fmt0"):
            for endmode in ("given", "omitted", "append"):
                if new == "fmt0" and K > 2:
                    continue
                layouts = ["distinct"] if (tier == "quick" and K != 3) else ["distinct", "shared"]
                # instances with many runs are split by the run in which `start` falls (sloc = K: at/after the end)
                slocs = [None] if (K < 4 or endmode == "append") else list(range(K + 1))
                for layout in layouts:
                    for sloc in slocs:
                        out.append({
                            "name": "splice-K%d-%s-%s-%s%s" % (K, new, endmode, layout, "" if sloc is None else "-s%d" % sloc),
                            "fn": "splice", "timeout": 90 if tier == "quick" else 300,
                            "params": {"K": K, "new": new, "end": endmode, "layout": layout, "sloc": sloc},
                        })
    # `new` formatted like the run it is spliced into (two runs: exactly that formatting, and that formatting plus one more)
    for K in (1, 2, 3):
        for endmode in ("given", "omitted"):
            out.append({"name": "splice-K%d-fmt2like-%s" % (K, endmode), "fn": "splice", "timeout": 90 if tier == "quick" else 300,
                        "params": {"K": K, "new": "fmt2", "end": endmode, "layout": "distinct", "sloc": None, "newlike": True}})
    # history twins: receiver and `new` were rendered / measured before the splice
    out += [dict(i, name=i["name"] + "-warm", params=dict(i["params"], warm=True)) for i in out
            if i["params"]["layout"] == "distinct" and i["params"]["sloc"] is None and (tier != "quick" or i["params"]["K"] in (1, 2, 3))]
    for K in (1, 2):
        for new in ("str", "fmt1"):
            out.append({"name": "native-K%d-%s" % (K, new), "fn": "splice_native", "timeout": 160 if tier == "quick" else 400, "cost": 9,
                        "params": {"K": K, "new": new, "L": 2 if tier == "quick" else 3}})
    # append on native strings (characters symbolic: zero-width and double-width characters included)
    for K in (1, 2):
        out.append({"name": "native-append-K%d" % K, "fn": "splice_native", "timeout": 160 if tier == "quick" else 400, "cost": 9,
                    "params": {"K": K, "new": "str", "L": 2 if tier == "quick" else 3, "append": True}})
    # three runs where the first and the last have the same formatting (and may have the same text): equal runs
    for cut in ("in0", "in1", "in2"):
        out.append({"name": "native-K3-twin-%s" % cut, "fn": "splice_native", "timeout": 120 if tier == "quick" else 400, "cost": 8,
                    "params": {"K": 3, "new": "str", "L": 2, "twin": True, "cut": cut}})
    return out


def setup(params):
    from chx.domains import widths
    install_space_mul()
    widths.install_ext()     # a change that measures display width meets an oracle (unknown on abstract text), not a C extension


def _atts(layout):
    return ATTS if layout == "distinct" else ATTS_SHARED


def _build(ns, ms, mk_text):
    from curtsies.formatstring import FmtStr, Chunk
    K = P["K"]
    atts = _atts(P["layout"])
    f = FmtStr(*[Chunk(mk_text(i, ns[i]), atts[i]) for i in range(K)])
    kind = P["new"]
    if kind == "str":
        new = mk_text(NEW_SID[0], ms[0])
    elif kind == "fmt0":
        new = FmtStr()
    elif kind == "fmt1":
        new = FmtStr(Chunk(mk_text(NEW_SID[0], ms[0]), NEW_ATTS[0]))
    elif P.get("newlike"):
        # the runs of `new` share exactly the formatting of f's first run (one of them has more)
        new = FmtStr(Chunk(mk_text(NEW_SID[0], ms[0]), dict(atts[0])), Chunk(mk_text(NEW_SID[1], ms[1]), dict(atts[0], blink=True)))
    else:
        new = FmtStr(Chunk(mk_text(NEW_SID[0], ms[0]), NEW_ATTS[0]), Chunk(mk_text(NEW_SID[1], ms[1]), NEW_ATTS[1]))
    if P.get("warm"):
        H.warm(f, new)      # history: both values were rendered and measured before
    return f, new


def _loc_ok(ns, start):
    """partition of the start position used to split large instances (the union over sloc is everything)"""
    sloc = P.get("sloc")
    if sloc is None:
        return True
    lo = 0
    for i in range(sloc):
        lo = lo + ns[i]
    if sloc >= P["K"]:
        return start >= lo
    return lo <= start < lo + ns[sloc]


def splice(n0: int, n1: int, n2: int, n3: int, n4: int, n5: int, m0: int, m1: int, start: int, end: int, p: int) -> bool:
    """
    pre: n0 >= 0 and n1 >= 0 and n2 >= 0 and n3 >= 0 and n4 >= 0 and n5 >= 0 and m0 >= 0 and m1 >= 0
    pre: 0 <= start <= end
    pre: _loc_ok([n0, n1, n2, n3, n4, n5], start)
    post: _
    """
    from curtsies.formatstring import FmtStr, Chunk
    ns = [n0, n1, n2, n3, n4, n5]
    ms = [m0, m1]
    f, new = _build(ns, ms, SegStr.source)
    chunks_before = list(f.chunks)
    mode = P["end"]
    if mode == "given":
        r = f.splice(new, start, end)
    elif mode == "omitted":
        r = f.splice(new, start)
    else:
        r = f.append(new)
    newf = new if isinstance(new, FmtStr) else FmtStr(Chunk(new))   # a plain str shows unformatted
    obs = H.observe(r)
    out_r = str(r)
    with NoTracing():
        K = P["K"]
        tot = z3.IntVal(0)
        for i in range(K):
            tot = tot + zint(ns[i])
        kind = P["new"]
        M = {"str": zint(m0), "fmt0": z3.IntVal(0), "fmt1": zint(m0), "fmt2": zint(m0) + zint(m1)}[kind]
        if mode == "given":
            st, en = zint(start), zint(end)
        elif mode == "omitted":
            st = en = zint(start)
        else:
            st = en = tot
        S = H.zmin(st, tot)
        E = H.zmin(en, tot)
        Pz = zint(p)
        res = flat_at(r, Pz)
        explen = S + M + (tot - E)
        from_f1 = flat_at(f, Pz)
        from_new = flat_at(newf, Pz - S)
        from_f2 = flat_at(f, Pz - S - M + E)
        body = z3.If(Pz < S, same(res, from_f1), z3.If(Pz < S + M, same(res, from_new), same(res, from_f2)))
        ok = z3.And(res[3] == explen, z3.Implies(z3.And(Pz >= 0, Pz < explen), body), H.views_term(obs, res, Pz, explen), H.render_term(r, out_r, Pz))
        unchanged = len(f.chunks) == K and all(a is b for a, b in zip(f.chunks, chunks_before))
        if not unchanged:
            return verdict(False)
        nontrivial = z3.And(Pz >= 0, Pz < explen, M >= 1, tot >= K) if K else z3.BoolVal(True)
    return verdict(sbool(ok), sbool(nontrivial))


NAT_ATTS = [{"fg": 31}, {"bold": True}]


def _nat_build(t0, t1, nw, t2=""):
    from curtsies.formatstring import FmtStr, Chunk
    if P["K"] == 3:
        f = FmtStr(Chunk(t0, NAT_ATTS[0]), Chunk(t1, NAT_ATTS[1]), Chunk(t2, NAT_ATTS[0]))
    else:
        f = FmtStr(Chunk(t0, NAT_ATTS[0]), Chunk(t1, NAT_ATTS[1])) if P["K"] == 2 else FmtStr(Chunk(t0, NAT_ATTS[0]))
    kind = P["new"]
    new = nw if kind == "str" else FmtStr(Chunk(nw, NEW_ATTS[0]))
    return f, new


def _twin_pre(t0, t1, t2, nw, start, end):
    if not P.get("twin"):
        return len(t2) == 0
    if not (len(t0) == 2 and len(t1) <= 1 and len(t2) == 2 and len(nw) == 1):
        return False
    lo = {"in0": 0, "in1": 2, "in2": 2 + len(t1)}[P["cut"]]
    hi = {"in0": 2, "in1": 2 + len(t1), "in2": 4 + len(t1)}[P["cut"]]
    return lo <= end <= hi


def splice_native(t0: str, t1: str, nw: str, start: int, end: int, t2: str) -> bool:
    """
    pre: len(t0) <= P["L"] and len(t1) <= P["L"] and len(nw) <= P["L"] and (P["K"] >= 2 or len(t1) == 0)
    pre: _twin_pre(t0, t1, t2, nw, start, end)
    pre: 0 <= start <= end <= len(t0) + len(t1) + len(t2) + 2
    pre: chr(27) not in t0 + t1 + t2 + nw and chr(0x9b) not in t0 + t1 + t2 + nw
    post: _
    """
    from curtsies.formatstring import FmtStr, Chunk
    f, new = _nat_build(t0, t1, nw, t2)
    before = H.sym_cells(f)
    newc = H.sym_cells(new if isinstance(new, FmtStr) else FmtStr(Chunk(new)))
    if P.get("append"):
        if start != 0 or end != 0:
            return True
        r = f.append(new)
        want = before + newc
    else:
        r = f.splice(new, start, end)
        want = before[:start] + newc + before[end:]
    got = H.sym_cells(r)
    ok = H.cells_equal(got, want) and len(r) == len(want) and len(r.s) == len(want) and H.cells_equal(H.sym_cells(f), before)
    if P.get("append"):
        return verdict(ok, len(nw) >= 1 and len(t0) >= 1)
    return verdict(ok, len(nw) >= 1 and len(t0) >= 2 and 1 <= start < end)


# ---------------------------------------------------------------- concrete twin (plain CPython)
def _concrete_native(params, args):
    from chx.common import cells, fmt_cells
    from curtsies.formatstring import FmtStr
    t0, t1, nw, start, end = args[:5]
    t2 = args[5] if len(args) > 5 else ""
    f, new = _nat_build(t0, t1, nw, t2)
    before = cells(f)
    if params.get("append"):
        if start != 0 or end != 0:
            return {"ok": True, "observed": "not a case", "call": "-"}
        try:
            r = f.append(new)
        except Exception as ex:
            return {"ok": False, "observed": "raised %r" % (ex,), "expected": "a FmtStr", "call": "%r.append(%r)" % (f, new)}
        want = before + cells(new)
        got = cells(r)
        return {"ok": got == want and len(r) == len(want) and r.s == "".join(c for c, _ in want), "observed": fmt_cells(got),
                "expected": fmt_cells(want), "call": "%r.append(%r)" % (f, new)}
    try:
        r = f.splice(new, start, end)
    except Exception as ex:
        return {"ok": False, "observed": "raised %r" % (ex,), "expected": "a FmtStr", "call": "%r.splice(%r, %r, %r)" % (f, new, start, end)}
    want = before[:start] + cells(new) + before[end:]
    got = cells(r)
    ok = got == want and len(r) == len(want) and r.s == "".join(c for c, _ in want) and cells(f) == before
    return {"ok": ok, "observed": fmt_cells(got) + " len=%d s=%r" % (len(r), r.s), "expected": fmt_cells(want) + " len=%d" % len(want),
            "call": "%r.splice(%r, %r, %r)" % (f, new, start, end)}


def concrete(fn, params, args):
    from chx.common import cells, fmt_cells, render_matches
    P.clear()
    P.update(params)
    if fn == "splice_native":
        return _concrete_native(params, args)
    n = list(args[:6])
    m = list(args[6:8])
    start, end, p = args[8:11]
    if max(n + m + [start, end]) > 5000:
        return {"ok": None, "note": "counterexample too large to replay"}
    f, new = _build(n, m, src_text)
    before = cells(f)
    before_chunks = list(f.chunks)
    mode = params["end"]
    try:
        if mode == "given":
            r = f.splice(new, start, end)
            s, e = start, end
        elif mode == "omitted":
            r = f.splice(new, start)
            s = e = start
        else:
            r = f.append(new)
            s = e = len(before)
    except Exception as ex:  # the statement gives splice no licence to raise on these inputs
        return {"ok": False, "observed": "raised %r" % (ex,), "expected": "a FmtStr",
                "call": "splice(new=%r, %r, %r) on %r" % (new, start, end, f)}
    want = before[:s] + cells(new) + before[e:]
    got = cells(r)
    ok = got == want and cells(f) == before and all(a is b for a, b in zip(f.chunks, before_chunks)) \
        and len(f.chunks) == len(before_chunks) and len(r) == len(want) and r.s == "".join(c for c, _ in want)
    if ok and not render_matches(r):
        return {"ok": False, "observed": "str(result) = %r" % (str(r),), "expected": "a string displaying " + fmt_cells(got),
                "call": "%r .%s(%r, start=%r, end=%r)" % (f, "append" if mode == "append" else "splice", new, s, None if mode != "given" else e)}
    return {"ok": ok, "observed": fmt_cells(got) + " len=%d s=%r" % (len(r), r.s), "expected": fmt_cells(want) + " len=%d" % len(want),
            "call": "%r .%s(%r, start=%r, end=%r)" % (f, "append" if mode == "append" else "splice", new, s, None if mode != "given" else e)}
