"""C04 - FSArray region assignment composites exactly the assigned block.

Real code: FSArray.__init__/__setitem__/__getitem__, fsarray, normalize_slice,
FmtStr.setslice_with_length, splice, __getitem__, __radd__/__add__, fmtstr.
Domain: SegStr.  Array width W, column bounds c0 <= c1 <= W, all row lengths, all block
row lengths and the inspected column p are UNBOUNDED symbolic ints; the number of rows,
the row range r0:r1 and the kinds of block rows are fixed per instance.
One step from an arbitrary state satisfying the representation invariant (every row is a
FmtStr no longer than W) is the inductive step for assignment histories of any length.
"""
import z3

from chx import hsupport as H
from chx.hsupport import P, verdict, flat_at, same, sbool, att_id
from chx.domains.segstr import SegStr, zint, src_text, install_space_mul, LIT, OUT
from crosshair.tracers import NoTracing

PROP = "C04"
FUNCTIONS = ["FSArray.__init__", "FSArray.__setitem__", "FSArray.__getitem__", "fsarray", "slicesize (stubbed, lemma)",
             "normalize_slice", "FmtStr.setslice_with_length", "FmtStr.splice", "FmtStr.__getitem__", "FmtStr.__radd__",
             "FmtStr.__add__", "fmtstr"]
BOUNDS = ("column regions 0 <= c0 <= c1 <= width, and (wide twins) regions reaching up to two columns past the right edge; " +
          "whole __setitem__: rows before the assignment H in 0..2 (thorough 0..3), each row one run; region rows r0:r1 with "
          "r0 <= H+1, r1 <= H+2 fixed per instance; block = list of str / list of FmtStr / FSArray with the right or a wrong "
          "number of rows (wrong number: region width <= 2, because the real error path builds a region-sized message); "
          "row kernel setslice_with_length: row of <= 2 runs, block row str or 2 runs. Width W >= 0, columns "
          "0 <= c0 <= c1 <= W, run lengths, block row lengths, inspected column: unbounded integers")
STUBS = ["SegStr text domain; position-function oracle; an absent trailing cell == an unformatted space (blank)",
         "formatstringarray.slicesize replaced by the integer expression (stop-start)//(step or 1); the float original "
         "int((stop-start)/(step or 1)) is proved equal for |stop-start| <= 2**53 and step None by a z3 QF_FP lemma on every run",
         "text rendered from a symbolic int (exception messages) is a placeholder"]

ROW_ATTS = [[{"fg": 31}, {"bold": True}], [{"bg": 44}, {"underline": True}], [{"fg": 32, "bold": True}, {"invert": True}]]
BLK_ATTS = [[{"fg": 35}, {"bg": 41, "blink": True}], [{"dark": True}, {"fg": 36}], [{"italic": True}, {"bg": 43}]]


def instances(tier, seed):
    out = []
    T = 120 if tier == "quick" else 400
    shapes = []
    maxH = 2 if tier == "quick" else 3
    for Hh in range(0, maxH + 1):
        for r0 in range(0, Hh + 2):
            for r1 in range(r0, min(r0 + 3, Hh + 3)):
                shapes.append((Hh, r0, r1))
    if tier == "quick":
        keep = {(0, 0, 1), (1, 0, 1), (1, 1, 2), (1, 0, 2), (2, 0, 2), (2, 1, 3), (2, 3, 4), (1, 0, 0)}
        shapes = [s for s in shapes if s in keep]
    for (Hh, r0, r1) in shapes:
        nreg = r1 - r0
        for kind in ("str", "fmt", "fsarray"):
            counts = [nreg]
            if kind != "fsarray" or tier != "quick":
                counts += [c for c in (nreg - 1, nreg + 1) if 0 <= c <= 3 and c != nreg][:1 if tier == "quick" else 2]
            for B in counts:
                if B > 3:
                    continue
                # two existing rows inside the region: split by the case the first row falls in (union = everything)
                parts = [None] if not (min(r1, Hh) - r0 >= 2 and B == nreg) else [0, 1, 2, 3]
                for part in parts:
                    out.append({"name": "assign-H%d-r%d:%d-%s-B%d%s" % (Hh, r0, r1, kind, B, "" if part is None else "-p%d" % part),
                                "fn": "assign", "timeout": T if part is None else T + 90, "cost": 1 if part is None else 10,
                                "params": {"H": Hh, "r0": r0, "r1": r1, "kind": kind, "B": B, "part": part}})
    # column regions that reach past the right edge of the array (c1 > width; c0 up to width + 1)
    out += [dict(i, name=i["name"] + "-wide", params=dict(i["params"], wide=True)) for i in out
            if i["params"]["part"] is None and i["params"]["B"] == i["params"]["r1"] - i["params"]["r0"] and i["params"]["kind"] != "fsarray"
            and (tier != "quick" or i["params"]["H"] >= 1)]
    for K in (0, 1, 2):
        for bk in ("str", "fmt"):
            out.append({"name": "rowkernel-K%d-%s" % (K, bk), "fn": "rowkernel", "timeout": T, "params": {"K": K, "kind": bk}})
    for Hh in (0, 1, 2):
        out.append({"name": "build-H%d" % Hh, "fn": "build", "timeout": T, "params": {"H": Hh}})
        # constructor formatting arguments: they format the str entries, a FmtStr entry keeps its own formatting
        out.append({"name": "build-H%d-kw" % Hh, "fn": "build", "timeout": T, "params": {"H": Hh, "fmt": "kw"}})
        out.append({"name": "build-H%d-pos" % Hh, "fn": "build", "timeout": T, "params": {"H": Hh, "fmt": "pos"}})
    return out


def witness_instances(fn, lst, tier):
    """reachability twins only where a non-trivial true instance exists (a block with the wrong number of rows always
    raises: nothing to witness there)"""
    if fn == "assign":
        ok = [i for i in lst if i["params"]["B"] == i["params"]["r1"] - i["params"]["r0"] >= 1 and i["params"]["part"] is None
              and not i["params"].get("wide")]
        return ok[-1:] if tier == "quick" else ok[-6:]
    return lst[-1:] if tier == "quick" else lst[-3:]


def setup(params):
    install_space_mul()
    H.abstract_int_text()
    import curtsies.formatstringarray as fsa

    def slicesize(s):
        return (s.stop - s.start) // (s.step if s.step else 1)
    fsa.slicesize = slicesize


def selftest(rnd):
    from chx.selftests import segstr_selftest
    n = segstr_selftest(rnd, 100)
    # lemma: the real slicesize (float division by 1, truncation) is the identity on |d| <= 2**53
    import curtsies.formatstringarray as fsa
    import inspect
    src = inspect.getsource(fsa.slicesize)
    assert "int((s.stop - s.start) / (s.step if s.step else 1))" in src, "slicesize changed: stub/lemma no longer describes it: " + src
    a = z3.BitVec("d", 64)
    s = z3.Solver()
    lim = z3.BitVecVal(2 ** 53, 64)
    s.add(a <= lim, a >= -lim)
    f = z3.fpSignedToFP(z3.RNE(), a, z3.Float64())
    g = z3.fpDiv(z3.RNE(), f, z3.FPVal(1.0, z3.Float64()))
    s.add(z3.fpToSBV(z3.RTZ(), g, z3.BitVecSort(64)) != a)
    assert str(s.check()) == "unsat", "slicesize lemma not proved"
    for d in (0, 1, 7, 2 ** 53, -3):
        assert fsa.slicesize(slice(0, d)) == d
    return n + 6


# ---- building blocks shared by the symbolic harness and the concrete twin --------------
def _row(i, n0, n1, mk, runs=2):
    from curtsies.formatstring import FmtStr, Chunk
    if runs == 1:
        return FmtStr(Chunk(mk(2 * i, n0), ROW_ATTS[i % 3][0]))
    return FmtStr(Chunk(mk(2 * i, n0), ROW_ATTS[i % 3][0]), Chunk(mk(2 * i + 1, n1), ROW_ATTS[i % 3][1]))


def _blockrow(j, kind, k0, k1, mk, runs=2):
    from curtsies.formatstring import FmtStr, Chunk
    if kind == "str":
        return mk(20 + 2 * j, k0)
    if runs == 1:
        return FmtStr(Chunk(mk(20 + 2 * j, k0), BLK_ATTS[j % 3][0]))
    return FmtStr(Chunk(mk(20 + 2 * j, k0), BLK_ATTS[j % 3][0]), Chunk(mk(21 + 2 * j, k1), BLK_ATTS[j % 3][1]))


def _as_fmt(x, atts=None):
    from curtsies.formatstring import FmtStr, Chunk
    return x if isinstance(x, FmtStr) else FmtStr(Chunk(x, atts or {}))


_FMT_ATTS = {"kw": {"fg": 34, "bold": True}, "pos": {"bg": 42}}


def _fsarray(rows, W):
    from curtsies.formatstringarray import fsarray
    fmt = P.get("fmt")
    if fmt == "kw":
        return fsarray(rows, W, fg="blue", bold=True)
    if fmt == "pos":
        return fsarray(rows, W, "on_green")
    return fsarray(rows, W)


BLANK_ATT = None


def _shown(f, p):
    """z3 (a, b, att) of the cell row f shows in column p: an absent cell is an unformatted space"""
    a, b, t, ln = flat_at(f, p)
    blank_att = att_id({})
    inr = z3.And(p >= 0, p < ln)
    return (z3.If(inr, a, z3.IntVal(LIT)), z3.If(inr, b, z3.IntVal(32)), z3.If(inr, t, z3.IntVal(blank_att))), ln


def _eq3(x, y):
    return z3.And(x[0] == y[0], x[1] == y[1], x[2] == y[2])


def _blank():
    return (z3.IntVal(LIT), z3.IntVal(32), z3.IntVal(att_id({})))


def _row_spec(new, old, blk, c0, c1, W, Pz):
    """z3: row `new` is `old` with `blk` composited into columns [c0, c1)"""
    sn, ln = _shown(new, Pz)
    so, _ = _shown(old, Pz)
    fb = flat_at(blk, Pz - c0)
    M = fb[3]
    body = z3.If(z3.And(Pz >= c0, Pz < c0 + M), _eq3(sn, fb[:3]),
                 z3.If(z3.And(Pz >= c0 + M, Pz < c1), _eq3(sn, _blank()), _eq3(sn, so)))
    return z3.And(ln <= W, z3.Implies(z3.And(Pz >= 0, Pz < W), body))


def _row_same(new, old, Pz, W):
    sn, ln = _shown(new, Pz)
    so, _ = _shown(old, Pz)
    return z3.And(ln <= W, z3.Implies(z3.And(Pz >= 0, Pz < W), _eq3(sn, so)))


# ---- family: the whole __setitem__ on an invariant-satisfying array ----------------------
def assign(W: int, c0: int, c1: int, a0: int, a1: int, b0: int, b1: int, d0: int, d1: int,
           k0: int, k1: int, k2: int, k3: int, k4: int, k5: int, p: int) -> bool:
    """
    pre: W >= 0 and 0 <= c0 <= c1 and ((W < c1 <= W + 2 and c0 <= W + 1) if P.get("wide") else c1 <= W)
    pre: a0 >= 0 and a1 >= 0 and b0 >= 0 and b1 >= 0 and d0 >= 0 and d1 >= 0
    pre: a0 + a1 <= W and b0 + b1 <= W and d0 + d1 <= W
    pre: k0 >= 0 and k1 >= 0 and k2 >= 0 and k3 >= 0 and k4 >= 0 and k5 >= 0
    pre: a1 == 0 and b1 == 0 and d1 == 0 and k1 == 0 and k3 == 0 and k5 == 0
    pre: P["B"] == P["r1"] - P["r0"] or c1 - c0 <= 2
    pre: P.get("part") is None or ((a0 > c1) == bool(P["part"] & 1) and (k0 > c1 - c0) == bool(P["part"] & 2))
    post: _
    """
    from curtsies.formatstringarray import FSArray, fsarray
    Hh, r0, r1, kind, B = P["H"], P["r0"], P["r1"], P["kind"], P["B"]
    rl = [(a0, a1), (b0, b1), (d0, d1)]
    ks = [(k0, k1), (k2, k3), (k4, k5)]
    arr = FSArray(Hh, W)
    arr.rows = [_row(i, rl[i][0], rl[i][1], SegStr.source, 1) for i in range(Hh)]     # arbitrary invariant state
    old_rows = list(arr.rows)
    bkind = "fmt" if kind == "fsarray" else kind
    brows = [_blockrow(j, bkind, ks[j][0], ks[j][1], SegStr.source, 1) for j in range(B)]
    if kind == "fsarray":
        value = FSArray(B, W)
        value.rows = list(brows)
    else:
        value = list(brows)
    try:
        arr[r0:r1, c0:c1] = value
        raised = False
    except Exception:      # noqa: the statement says "raises an error" without fixing the type
        raised = True
    nreg = r1 - r0
    bfmts = [_as_fmt(b) for b in brows]
    with NoTracing():
        Wz, C0, C1, Pz = zint(W), zint(c0), zint(c1), zint(p)
        empty_region = z3.Or(C1 - C0 == 0, z3.BoolVal(nreg == 0))
        must_err = []     # the two stated reasons
        may_err = []      # block row longer than the region although nothing lies to its right (unspecified)
        blen = []
        for j in range(B):
            blen.append(flat_at(bfmts[j], Pz)[3])
        for j in range(min(B, nreg)):
            i = r0 + j
            N = (zint(rl[i][0]) + zint(rl[i][1])) if i < Hh else z3.IntVal(0)
            M = blen[j]
            must_err.append(z3.Or(z3.And(N > C1, M > C1 - C0), z3.And(N <= C1, C0 + M > Wz)))
            may_err.append(M > C1 - C0)
        wrong_count = (B != nreg)
        if raised:
            # an error must be licensed, and no pre-existing cell may have changed
            lic = z3.And(z3.Not(empty_region), z3.Or(z3.BoolVal(wrong_count), *(must_err + may_err)))
            conj = [lic]
            if len(arr.rows) < Hh:
                return verdict(False)
            for i in range(Hh):
                conj.append(_row_same(arr.rows[i], old_rows[i], Pz, Wz))
            for i in range(Hh, len(arr.rows)):     # rows appended before the error must be blank
                conj.append(flat_at(arr.rows[i], Pz)[3] == 0)
            return verdict(sbool(z3.And(*conj)), False)
        # no error: none of the stated reasons may hold (unless the region is empty: then nothing happens at all)
        conj = []
        if wrong_count:
            conj.append(empty_region)
        else:
            conj.append(z3.Or(empty_region, z3.Not(z3.Or(*must_err)) if must_err else z3.BoolVal(True)))
        # height: grows to r1 when the region reaches past the last row
        # (normalize + extend happen before the empty-region early return in the real code; both are accepted there)
        height = len(arr.rows)
        if height not in (max(Hh, r1), Hh):
            return verdict(False)
        if height != max(Hh, r1):
            conj.append(empty_region)
        from curtsies.formatstring import FmtStr
        for i in range(height):
            new = arr.rows[i]
            if not isinstance(new, FmtStr):
                return verdict(False)
            old = old_rows[i] if i < Hh else FmtStr()
            if r0 <= i < r1 and not wrong_count:
                spec = _row_spec(new, old, bfmts[i - r0], C0, C1, Wz, Pz)
                conj.append(z3.If(empty_region, _row_same(new, old, Pz, Wz), spec))
            else:
                conj.append(_row_same(new, old, Pz, Wz))
        ok = z3.And(*conj)
        nontrivial = z3.And(C1 - C0 >= 2, Pz >= C0, Pz < C1, *[b >= 1 for b in blen]) if (nreg and not wrong_count) else z3.BoolVal(nreg == 0)
    # reading back: a[r0:r1, c0:c1] and a[i] return what the cells show
    if not wrong_count and nreg:
        back = arr[r0:r1, c0:c1]
        whole = [arr[i] for i in range(len(arr.rows))]
        with NoTracing():
            if len(back) != nreg or any(w is not arr.rows[i] for i, w in enumerate(whole)):
                return verdict(False)
            rb = []
            for j in range(nreg):
                sb, lb = _shown(back[j], Pz)
                sr, _ = _shown(arr.rows[r0 + j], Pz + C0)
                rb.append(z3.And(lb <= C1 - C0, z3.Implies(z3.And(Pz >= 0, Pz < C1 - C0), _eq3(sb, sr))))
            ok = z3.And(ok, *rb)
    return verdict(sbool(ok), sbool(nontrivial))


# ---- family: the row kernel with everything unbounded ---------------------------------------
def rowkernel(n0: int, n1: int, k0: int, k1: int, c0: int, c1: int, W: int, p: int) -> bool:
    """
    pre: n0 >= 0 and n1 >= 0 and k0 >= 0 and k1 >= 0 and 0 <= c0 <= c1 <= W and n0 + n1 <= W
    pre: (P["K"] >= 1 or n0 == 0) and (P["K"] >= 2 or n1 == 0)
    post: _
    """
    from curtsies.formatstring import FmtStr, Chunk
    K = P["K"]
    f = FmtStr(*[Chunk(SegStr.source(i, [n0, n1][i]), ROW_ATTS[0][i]) for i in range(K)])
    blk = _blockrow(0, P["kind"], k0, k1, SegStr.source)
    try:
        r = f.setslice_with_length(c0, c1, blk, W)
        raised = False
    except (ValueError, AssertionError):
        raised = True
    bfmt = _as_fmt(blk)
    with NoTracing():
        Wz, C0, C1, Pz = zint(W), zint(c0), zint(c1), zint(p)
        N = zint(n0) + zint(n1)
        M = flat_at(bfmt, Pz)[3]
        must = z3.Or(z3.And(N > C1, M > C1 - C0), z3.And(N <= C1, C0 + M > Wz))
        if raised:
            return verdict(sbool(z3.Or(must, M > C1 - C0)), False)
        ok = z3.And(z3.Not(must), _row_spec(r, f, bfmt, C0, C1, Wz, Pz))
        nontrivial = z3.And(M >= 1, Pz >= C0, Pz < C1, N > C0)
    return verdict(sbool(ok), sbool(nontrivial))


# ---- family: fsarray(strings, width) ----------------------------------------------------------
def build(W: int, a0: int, a1: int, b0: int, b1: int, p: int) -> bool:
    """
    pre: W >= 0 and a0 >= 0 and a1 >= 0 and b0 >= 0 and b1 >= 0
    post: _
    """
    from curtsies.formatstringarray import fsarray
    Hh = P["H"]
    rl = [(a0, a1), (b0, b1)]
    rows = [_row(0, a0, a1, SegStr.source), SegStr.source(9, b0 + b1)][:Hh]   # one FmtStr row, one plain str row
    lens = [a0 + a1, b0 + b1][:Hh]
    fits = all(n <= W for n in lens)
    try:
        arr = _fsarray(rows, W)
        raised = False
    except ValueError:
        raised = True
    if raised:
        return verdict(not fits, False)
    if not fits:
        return verdict(False)
    rfmts = [_as_fmt(r, _FMT_ATTS.get(P.get("fmt"))) for r in rows]
    with NoTracing():
        Wz, Pz = zint(W), zint(p)
        if len(arr.rows) != Hh or arr.num_columns is not W:
            return verdict(False)
        conj = [z3.BoolVal(True)]
        for i in range(Hh):
            conj.append(_row_same(arr.rows[i], rfmts[i], Pz, Wz))
        ok = z3.And(*conj)
    return verdict(sbool(ok), sbool(z3.And(Pz >= 1, Pz < Wz)) if Hh else True)


# ---------------------------------------------------------------- concrete twin (plain CPython)
def _grid(rows, W):
    from chx.common import cells
    out = []
    for r in rows:
        cs = cells(r)
        out.append([cs[x] if x < len(cs) else (" ", {}) for x in range(max(W, len(cs)))])
    return out


def concrete(fn, params, args):
    from curtsies.formatstringarray import FSArray, fsarray
    from curtsies.formatstring import FmtStr
    from chx.common import cells, fmt_cells
    P.clear()
    P.update(params)
    if max(abs(x) for x in args) > 3000:
        return {"ok": None, "note": "counterexample too large to replay"}
    if fn == "assign":
        W, c0, c1 = args[0:3]
        rl = [(args[3], args[4]), (args[5], args[6]), (args[7], args[8])]
        ks = [(args[9], args[10]), (args[11], args[12]), (args[13], args[14])]
        Hh, r0, r1, kind, B = params["H"], params["r0"], params["r1"], params["kind"], params["B"]
        arr = FSArray(Hh, W)
        arr.rows = [_row(i, rl[i][0], rl[i][1], src_text, 1) for i in range(Hh)]
        before = _grid(arr.rows, W)
        bkind = "fmt" if kind == "fsarray" else kind
        brows = [_blockrow(j, bkind, ks[j][0], ks[j][1], src_text, 1) for j in range(B)]
        if kind == "fsarray":
            value = FSArray(B, W)
            value.rows = list(brows)
        else:
            value = list(brows)
        call = "a=%r (W=%d); a[%d:%d, %d:%d] = %r" % (arr.rows, W, r0, r1, c0, c1, brows)
        try:
            arr[r0:r1, c0:c1] = value
            raised = None
        except Exception as ex:
            raised = ex
        nreg = r1 - r0
        empty = (c1 == c0) or nreg == 0
        must = may = False
        for j in range(min(B, nreg)):
            i = r0 + j
            N = sum(rl[i]) if i < Hh else 0
            M = len(brows[j])
            must |= (N > c1 and M > c1 - c0) or (N <= c1 and c0 + M > W)
            may |= M > c1 - c0
        after = _grid(arr.rows, W)
        if raised is not None:
            ok = (not empty) and (B != nreg or must or may) and after[:Hh] == before and all(len(r) == 0 for r in arr.rows[Hh:])
            return {"ok": ok, "observed": "raised %r; rows now %r" % (raised, arr.rows), "expected": "error only when licensed, no cell changed", "call": call}
        if B != nreg:
            ok = empty and after[:Hh] == before
            return {"ok": ok, "observed": "no error; rows %r" % (arr.rows,), "expected": "an error (wrong number of rows)", "call": call}
        if must and not empty:
            return {"ok": False, "observed": "no error; rows %r" % (arr.rows,), "expected": "an error (row too long)", "call": call}
        want = [list(r) + [(" ", {})] * (W - len(r)) for r in before]
        if not empty:
            while len(want) < r1:
                want.append([(" ", {})] * W)
            for j in range(nreg):
                bc = cells(brows[j])
                row = want[r0 + j]
                for x in range(c0, max(c1, c0 + len(bc))):
                    if x < len(row):
                        row[x] = bc[x - c0] if x - c0 < len(bc) else (" ", {})
        got = [list(r) + [(" ", {})] * (W - len(r)) for r in after]
        ok = got == want and all(len(r) <= W for r in arr.rows) and all(isinstance(r, FmtStr) for r in arr.rows)
        if ok and nreg and not empty:
            back = arr[r0:r1, c0:c1]
            for j in range(nreg):
                bc = cells(back[j])
                ok = ok and len(bc) <= c1 - c0 and all((bc[x] if x < len(bc) else (" ", {})) == got[r0 + j][c0 + x] for x in range(c1 - c0))
            ok = ok and all(arr[i] is arr.rows[i] for i in range(len(arr.rows)))
        return {"ok": ok, "observed": [fmt_cells(r) for r in got], "expected": [fmt_cells(r) for r in want], "call": call}
    if fn == "rowkernel":
        from curtsies.formatstring import Chunk
        n0, n1, k0, k1, c0, c1, W, p = args
        K = params["K"]
        f = FmtStr(*[Chunk(src_text(i, [n0, n1][i]), ROW_ATTS[0][i]) for i in range(K)])
        blk = _blockrow(0, params["kind"], k0, k1, src_text)
        N, M = len(f), len(blk)
        must = (N > c1 and M > c1 - c0) or (N <= c1 and c0 + M > W)
        call = "%r.setslice_with_length(%d, %d, %r, %d)" % (f, c0, c1, blk, W)
        try:
            r = f.setslice_with_length(c0, c1, blk, W)
        except (ValueError, AssertionError) as ex:
            return {"ok": must or M > c1 - c0, "observed": "raised %r" % (ex,), "expected": "error only if the row is too long", "call": call}
        if must:
            return {"ok": False, "observed": repr(r), "expected": "an error", "call": call}
        want = cells(f) + [(" ", {})] * (W - N)
        bc = cells(blk)
        for x in range(c0, max(c1, c0 + M)):
            if x < len(want):
                want[x] = bc[x - c0] if x - c0 < M else (" ", {})
        got = cells(r) + [(" ", {})] * (W - len(r))
        return {"ok": got == want and len(r) <= W, "observed": fmt_cells(got), "expected": fmt_cells(want), "call": call}
    if fn == "build":
        W, a0, a1, b0, b1, p = args
        Hh = params["H"]
        rows = [_row(0, a0, a1, src_text), src_text(9, b0 + b1)][:Hh]
        fits = all(len(r) <= W for r in rows)
        call = "fsarray(%r, %d)" % (rows, W)
        if params.get("fmt"):
            call += " + constructor formatting %r" % (_FMT_ATTS[params["fmt"]],)
        try:
            arr = _fsarray(rows, W)
        except ValueError as ex:
            return {"ok": not fits, "observed": "raised %r" % (ex,), "expected": "ValueError only when a string is too long", "call": call}
        if not fits:
            return {"ok": False, "observed": repr(arr.rows), "expected": "ValueError", "call": call}
        got = _grid(arr.rows, W)
        want = _grid([_as_fmt(r, _FMT_ATTS.get(params.get("fmt"))) for r in rows], W)
        return {"ok": got == want and arr.shape == (Hh, W) and all(len(r) <= W for r in arr.rows), "observed": [fmt_cells(r) for r in got],
                "expected": [fmt_cells(r) for r in want], "call": call}
    raise KeyError(fn)
