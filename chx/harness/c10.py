"""C10 - width and width_aware_slice measure and cut by terminal columns.

Real code: Chunk.width, FmtStr.width, width_at_offset, FmtStr.width_aware_slice, module-level
width_aware_slice, interval_overlap, normalize_slice.
Symbolic: 1..3 runs of native CrossHair strings; every character symbolic over the width
alphabet (narrow / double-width / combining - its class is decided by the solver through the
width oracle); column bounds a <= b and the offset n symbolic.
Oracle: column expansion - every character occupies w(c) columns; a zero-width character
strictly inside the requested columns is kept in place (on the boundary its fate is not fixed).
"""
from chx import hsupport as H
from chx.hsupport import P, verdict
from chx.common import disp, cells, fmt_cells, render_matches
from chx.domains import widths
from crosshair.tracers import NoTracing

PROP = "C10"
FUNCTIONS = ["Chunk.width", "FmtStr.width", "FmtStr.width_at_offset", "FmtStr.width_aware_slice", "width_aware_slice",
             "interval_overlap", "normalize_slice", "FmtStr.s"]
BOUNDS = ("1..3 runs, each run text of length 0..2 (quick; thorough 0..3), total <= 4 (thorough 6); the width class of every "
          "character (narrow / double-width / combining) is a symbolic selector, each class represented by one distinct "
          "character per position (the code inspects characters only through wcwidth/wcswidth); columns "
          "0 <= a <= b <= width+2 and offset 0 <= n <= len symbolic; interval_overlap: all integers a <= b, x <= y")
STUBS = ["width oracle (pure Python over the symbolic code point) instead of the cwcwidth C extension; validated against "
         "cwcwidth on the whole alphabet on every run; concrete replays use the real cwcwidth"]

ATTS = [{"fg": 31}, {"bold": True}, {"bg": 44}]


def instances(tier, seed):
    out = []
    T = 150 if tier == "quick" else 900
    maxrun = 2 if tier == "quick" else 3
    maxtot = 4 if tier == "quick" else 6
    for K in (1, 2, 3):
        lens = _len_tuples(K, maxrun, maxtot)
        if tier == "quick":
            lens = [t for t in lens if sum(t) < 4 or t in ((2, 2), (1, 2, 1), (2, 0, 2))]
        for fn in ("width", "wslice"):
            for lt in lens:
                # long texts: split by the width classes of the first two characters (union = everything)
                parts = [None]
                if sum(lt) >= 4:
                    parts = [(x, y) for x in range(3) for y in range(3)] if fn == "wslice" else [(x, None) for x in range(3)]
                elif sum(lt) == 3 and fn == "wslice":
                    parts = [(x, None) for x in range(3)]
                for part in parts:
                    out.append({"name": "%s-K%d-%s%s" % (fn, K, "".join(map(str, lt)), "" if part is None else "-p%s%s" % (part[0], "" if part[1] is None else part[1])),
                                "fn": fn, "timeout": T, "cost": sum(lt) ** 2 if fn == "wslice" else 1,
                                "params": {"K": K, "lens": list(lt), "part": part}})
    # history twins: the sliced value was rendered and measured before (memoised strings / widths filled in)
    warm = [dict(i, name=i["name"] + "-warm", params=dict(i["params"], warm=True)) for i in out
            if i["fn"] == "wslice" and (tier != "quick" or sum(i["params"]["lens"]) <= 3)]
    out += warm
    out += [dict(i, name=i["name"] + "-concat", params=dict(i["params"], concat=True)) for i in out
            if i["fn"] == "width" and i["params"]["K"] >= 2 and not i["params"].get("warm")]
    out.append({"name": "overlap", "fn": "overlap", "timeout": T, "params": {}})
    return out


def _len_tuples(K, maxrun, maxtot):
    import itertools
    return [t for t in itertools.product(range(0, maxrun + 1), repeat=K) if sum(t) <= maxtot and (K == 1 or sum(t) >= 1)]


def witness_instances(fn, lst, tier):
    pick = [i for i in lst if i["params"].get("lens") in ([2, 2], [2, 1])]
    return pick[:1] or lst[:1]


def setup(params):
    widths.install()


def selftest(rnd):
    return widths.selftest()


REPS = ["abcdef", "\uff21\uff22\uff23\uff24\uff25\uff26", "\u0300\u0301\u0302\u0303\u0304\u0305"]   # narrow / wide / combining, distinct per position


def _texts(ks):
    """run texts from the per-position class selectors (realised: one path per class pattern)"""
    from crosshair.core import realize
    lens = P["lens"]
    ts = []
    pos = 0
    for ln in lens:
        t = ""
        for _ in range(ln):
            t += REPS[int(realize(ks[pos]))][pos]
            pos += 1
        ts.append(t)
    while len(ts) < 3:
        ts.append("")
    return ts


def _kpre(ks):
    n = sum(P["lens"])
    part = P.get("part")
    if part is not None:
        if ks[0] != part[0] or (part[1] is not None and ks[1] != part[1]):
            return False
    return all((0 <= k <= 2) if i < n else k == 0 for i, k in enumerate(ks))


def _build(ts):
    from curtsies.formatstring import FmtStr, Chunk
    K = P["K"]
    if P.get("concat"):
        # built by +: every operand was rendered and measured before; the last run is a plain str operand
        f = None
        for i in range(K):
            piece = ts[i] if (i == K - 1 and K >= 2) else FmtStr(Chunk(ts[i], ATTS[i]))
            if not isinstance(piece, str):
                H.warm(piece)
                piece.width
            f = piece if f is None else f + piece
            H.warm(f)
            f.width
        return f
    f = FmtStr(*[Chunk(t, a) for t, a in zip(ts[:K], ATTS)])
    if P.get("warm"):
        H.warm(f)
        f.width
    return f


def _charlist(ts, wfn):
    out = []
    for idx, t in enumerate(ts[:P["K"]]):
        for c in t:
            out.append((c, idx, wfn(c)))
    return out


def expected_slice(chars, a, b):
    """column expansion.  chars: [(char, run index, width)].  returns (expected non-zero-width cells, expected width);
    a cell is (char or ' ', run index)"""
    out = []
    col = 0
    total = 0
    bb = min(b, sum(w for (_, _, w) in chars))       # the range is clamped to the width of the string
    for (c, r, w) in chars:
        if w == 0:
            if a < col < bb:
                out.append((c, r))      # a zero-width character strictly inside the range is kept (on the boundary: not fixed)
            continue
        lo, hi = col, col + w
        col = hi
        ov = max(0, min(hi, b) - max(lo, a))
        if ov == w:
            out.append((c, r))
            total += w
        elif ov > 0:
            out.append((" ", r))     # a halved double-width character -> a space with that character's formatting
            total += ov
    return out, total


def width(k0: int, k1: int, k2: int, k3: int, k4: int, k5: int, n: int) -> bool:
    """
    pre: _kpre([k0, k1, k2, k3, k4, k5])
    pre: 0 <= n <= sum(P["lens"])
    post: _
    """
    ts = _texts([k0, k1, k2, k3, k4, k5])
    f = _build(ts)
    chars = _charlist(ts, widths.wcwidth)
    tot = sum(w for (_, _, w) in chars)
    ok = f.width == tot and f.width == tot          # memoised value read twice
    ok = ok and f.width_at_offset(n) == sum(w for (_, _, w) in chars[:n])
    return verdict(ok, tot >= 3 and n >= 1)


def wslice(k0: int, k1: int, k2: int, k3: int, k4: int, k5: int, a: int, b: int) -> bool:
    """
    pre: _kpre([k0, k1, k2, k3, k4, k5])
    pre: 0 <= a <= b <= 2 * sum(P["lens"]) + 2
    post: _
    """
    ts = _texts([k0, k1, k2, k3, k4, k5])
    f = _build(ts)
    chars = _charlist(ts, widths.wcwidth)
    tot = sum(w for (_, _, w) in chars)
    if b > tot + 2:
        return True          # outside the quantifier (0 <= a <= b <= width + 2)
    r = f.width_aware_slice(slice(a, b))
    want, wwidth = expected_slice(chars, a, b)
    got = []
    rcol = 0
    for ch in r.chunks:
        ridx = ATTS.index(dict(ch.atts)) if dict(ch.atts) in ATTS else -1
        for c in ch.s:
            wc = widths.wcwidth(c)
            if wc == 0 and c != " " and not (0 < rcol < min(b, tot) - a):
                continue        # zero-width characters ON the boundary of the range: not fixed by the statement
            rcol += wc
            got.append((c, ridx))
    ok = len(got) == len(want)
    if ok:
        for (gc, gr), (wc, wr) in zip(got, want):
            if gr != wr or gc != wc:
                ok = False
                break
    ok = ok and r.width == wwidth
    if ok:
        out = str(r)
        with NoTracing():
            ok = render_matches(r)      # what the result prints as is what its runs say (memoised strings included)
    return verdict(ok, tot >= 3 and a >= 1 and b > a)


def overlap(a: int, b: int, x: int, y: int) -> bool:
    """
    pre: a <= b and x <= y
    post: _
    """
    from curtsies.formatstring import interval_overlap
    got = interval_overlap(a, b, x, y)
    lo = a if a > x else x
    hi = b if b < y else y
    want = hi - lo if hi > lo else 0
    return verdict(got == want, a < y and x < b)


# ---------------------------------------------------------------- concrete twin (plain CPython, real cwcwidth)
def concrete(fn, params, args):
    import cwcwidth
    from curtsies.formatstring import interval_overlap
    P.clear()
    P.update(params)
    if fn == "overlap":
        a, b, x, y = args
        call = "interval_overlap(%d, %d, %d, %d)" % (a, b, x, y)
        want = max(0, min(b, y) - max(a, x))
        try:
            got = interval_overlap(a, b, x, y)
        except AssertionError as ex:
            return {"ok": False, "observed": "AssertionError", "expected": want, "call": call}
        return {"ok": got == want, "observed": got, "expected": want, "call": call}
    ks = list(args[:6])
    ts = []
    pos = 0
    for ln in params["lens"]:
        ts.append("".join(REPS[ks[pos + q]][pos + q] for q in range(ln)))
        pos += ln
    ts += [""] * (3 - len(ts))
    f = _build(ts)
    chars = _charlist(ts, cwcwidth.wcwidth)
    tot = sum(w for (_, _, w) in chars)
    if fn == "width":
        n = args[6]
        call = "%r .width / .width_at_offset(%d)" % (f, n)
        try:
            got = (f.width, f.width_at_offset(n))
        except Exception as ex:
            return {"ok": False, "observed": "raised %r" % (ex,), "expected": (tot, sum(w for (_, _, w) in chars[:n])), "call": call}
        want = (tot, sum(w for (_, _, w) in chars[:n]))
        return {"ok": got == want, "observed": got, "expected": want, "call": call}
    a, b = args[6], args[7]
    if b > tot + 2:
        return {"ok": True, "observed": "outside the quantifier", "call": "-"}
    call = "%r .width_aware_slice(slice(%d, %d))" % (f, a, b)
    try:
        r = f.width_aware_slice(slice(a, b))
        rw = r.width
    except Exception as ex:
        return {"ok": False, "observed": "raised %r" % (ex,), "expected": "a FmtStr", "call": call}
    want, wwidth = expected_slice(chars, a, b)
    got = []
    rcol = 0
    for ch in r.chunks:
        ridx = ATTS.index(dict(ch.atts)) if dict(ch.atts) in ATTS else -1
        for c in ch.s:
            wc = cwcwidth.wcwidth(c)
            if wc == 0 and not (0 < rcol < min(b, tot) - a):
                continue
            rcol += wc
            got.append((c, ridx))
    if got == want and rw == wwidth and not render_matches(r):
        return {"ok": False, "observed": "str(result) = %r" % (str(r),), "expected": "a string displaying %r" % (got,), "call": call}
    return {"ok": got == want and rw == wwidth, "observed": "%r width %r" % (got, rw), "expected": "%r width %r" % (want, wwidth), "call": call}
