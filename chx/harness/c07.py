"""C07 - CursorAwareWindow keeps history intact and accounts for every scroll.

Real code: CursorAwareWindow.__enter__ / render_to_terminal / __exit__, get_cursor_position,
BaseWindow.scroll_down / write / on_terminal_size_change, FmtStr.__eq__, real blessed strings
(location() included).
Scenario: a terminal (reference model with scrollback) that already holds output - `sb` lines in
the scrollback and r0 marker lines on screen, the cursor on row r0 -; enter; one or two renders
with arrays of height 0..h+2; leave.  The state after the first render is the pre-state of the
second (the invariant over top_usable_row, row cache, screen and scrollback is asserted after
every render, so the second render is the inductive step).
Symbolic: every character of the arrays' rows (the row-cache comparison forks symbolically), the
cursor target; shapes are enumerated by the solver.
"""
import io
import itertools
import os

from chx import hsupport as H
from chx.hsupport import P, verdict
from chx.domains.termmodel import TermModel, Recorder, Tagged, BLANK, sized_terminal

PROP = "C07"
FUNCTIONS = ["CursorAwareWindow.__enter__", "CursorAwareWindow.render_to_terminal", "CursorAwareWindow.__exit__",
             "CursorAwareWindow.get_cursor_position", "BaseWindow.scroll_down", "BaseWindow.write", "BaseWindow.on_terminal_size_change",
             "BaseWindow.__enter__/__exit__", "FmtStr.__eq__/__str__/__len__", "blessed location()/move/clear_* (real strings)"]
BOUNDS = ("initial screen: marker lines above the cursor, in half of the instances also old output on the cursor's row and below; " +
          "terminal sizes (2,2), (3,2) quick; + (3,3), (4,2) thorough; 0 or 2 lines already in the scrollback, cursor on any screen "
          "row r0 with marker lines above it; first array from a reduced set (8), second array: quick a seeded sample of 10 (+ all "
          "arrays of height <= 1), thorough a seeded sample of 40; heights 0..h+2, rows of length 0..w (str / 1-run / 2-run); every row character "
          "symbolic; cursor target: first visible / last array row (symbolic choice) at a column fixed per instance; keep_last_line and hide_cursor both")
STUBS = ["terminal model with scrollback as output device and as the source of the cursor report (DSR 6) read from in_stream; rows "
         "handed over as FmtStr through fmtstr_to_stdout_xform() (assumes C01)", "curtsies.window.Cbreak replaced by a no-op "
         "context manager (tty state is C12's subject)", "window.t.height/width from the shape; move() strings tabulated once",
         "rows wider than the terminal are outside (the docstring says they are rendered anyway)"]

SIZE = [2, 2]
ENV = {}
CASES = []
ROW_ATT = [{"fg": 31}, {"bold": True}]
MARK = "#%&@$!"


def _row_options(w):
    opts = [(0, "s"), (1, "f"), (w, "s"), (w, "g" if w >= 2 else "f")]
    out = []
    for o in opts:
        if o not in out:
            out.append(o)
    return out


def _arrays(h, w, reduced):
    opts = _row_options(w)
    if reduced:
        keep = [(), ((w, "s"),), ((1, "f"),) * h, ((w, "s"),) * (h + 1), ((w, "g" if w >= 2 else "f"),) * (h + 2), ((0, "s"), (w, "s")),
                ((w, "s"),) * h, ((1, "f"), (w, "s"), (0, "s"))]
        out = []
        for k in keep:
            if k not in out and len(k) <= h + 2:
                out.append(k)
        return out
    out = [()]
    for n in range(1, h + 3):
        for rows in itertools.product(opts, repeat=n):
            out.append(rows)
    return out


def instances(tier, seed):
    out = []
    T = 200 if tier == "quick" else 900
    sizes = [(2, 2), (3, 2)] if tier == "quick" else [(2, 2), (3, 2), (3, 3), (4, 2)]
    for (h, w) in sizes:
        nA = len(_arrays(h, w, True))
        for r0 in range(h):
            for sb in (0, 2):
                for ai in range(nA):
                    if tier == "quick" and (ai + r0 + sb) % 2:
                        continue
                    opt = (ai + r0 + sb // 2) % 4
                    opts = [opt] if tier == "quick" else [0, 1, 2, 3]
                    for o in opts:
                        out.append({"name": "hist-%dx%d-r%d-sb%d-A%d-o%d" % (h, w, r0, sb, ai, o), "fn": "history", "timeout": T, "cost": h,
                                    "params": {"h": h, "w": w, "r0": r0, "sb": sb, "A": ai, "keep": bool(o & 1), "hide": bool(o & 2),
                                               "cc": (ai // 2 + r0) % w, "below": (ai + r0 + sb // 2) % 2 == 1,
                                               "seed": seed, "limit": (10 if h == 2 else 4) if tier == "quick" else 40}})
    return out


def witness_instances(fn, lst, tier):
    return [i for i in lst if i["params"]["A"] in (3, 4)][:1]


def _b_cases():
    cases = _arrays(P["h"], P["w"], False)
    lim = P.get("limit")
    if lim and len(cases) > lim:
        k = -(-len(cases) // lim)
        must = [c for c in cases if len(c) <= 1]
        cases = must + cases[(P.get("seed", 0) % k)::k]
    return cases


class NoCbreak:
    def __init__(self, stream):
        pass

    def __enter__(self):
        return self

    def __exit__(self, *a):
        return None


class ReplyIn:
    """in_stream: what the terminal sends back (the cursor report)"""
    encoding = "utf8"

    def __init__(self):
        self.model = None

    def read(self, n):
        if self.model is None or not self.model.replies:
            return ""
        return self.model.replies.pop(0)


def setup(params):
    os.environ.setdefault("TERM", "xterm-256color")
    import curtsies.window as cw
    cw.Cbreak = NoCbreak
    rec = Recorder()
    inp = ReplyIn()
    win = cw.CursorAwareWindow(out_stream=rec, in_stream=inp, keep_last_line=params["keep"], hide_cursor=params["hide"])
    win.t = sized_terminal(rec, SIZE)
    win.fmtstr_to_stdout_xform = lambda: (lambda line: Tagged(line))
    ENV.update(rec=rec, win=win, inp=inp, specA=_arrays(params["h"], params["w"], True)[params["A"]])
    CASES[:] = _b_cases()


def _mk_rows(spec, chars):
    from curtsies.formatstring import FmtStr, Chunk
    rows = []
    pos = 0
    for (ln, kind) in spec:
        t = chars[pos:pos + ln]
        pos += ln
        if kind == "s":
            rows.append(t)
        elif kind == "f":
            rows.append(FmtStr(Chunk(t, ROW_ATT[0])))
        else:
            rows.append(FmtStr(Chunk(t[:1], ROW_ATT[0]), Chunk(t[1:], ROW_ATT[1])))
    return rows


def _padded(row, w):
    cs = Tagged(row).cells()
    return [cs[c] if c < len(cs) else BLANK for c in range(w)]


def _initial(h, w, r0, sb, below=False):
    """terminal holding sb + r0 marker lines, cursor on row r0 (column 0); returns model and the history tape.
    below: the cursor is parked inside existing output - the rows from the cursor's down hold text as well"""
    model = TermModel(h, w)
    tape = []
    for i in range(sb):
        line = [(MARK[i % len(MARK)], (("fg", 35),)) if c == 0 else ("=", ()) for c in range(w)]
        model.scrollback.append(line)
        tape.append(line)
    for r in range(r0):
        line = [(MARK[(sb + r) % len(MARK)], ()) if c == 0 else ("-", (("bold", True),)) for c in range(w)]
        model.grid[r] = list(line)
        tape.append(line)
    if below:
        for r in range(r0, h):
            model.grid[r] = [("~", (("fg", 35),)) if c == 0 else ("+", ()) for c in range(w)]
    model.cup(r0, 0)
    return model, tape


def _rows_eq(a, b):
    if len(a) != len(b):
        return False
    for ra, rb in zip(a, b):
        for (c1, a1), (c2, a2) in zip(ra, rb):
            if a1 != a2 or c1 != c2:
                return False
    return True


def _tape(model):
    # copies: the model edits its rows in place, a tape taken earlier must not change with it
    return [list(r) for r in model.scrollback + model.grid]


def _render_and_check(win, model, rows, cursor, state, w, h):
    """one render + the invariant.  state: dict(hist=tape prefix that must never change, base=tape index of the window's first row)"""
    scr0 = model.scrolls
    sb0 = len(model.scrollback)
    top0 = win.top_usable_row
    base = sb0 + top0
    ret = win.render_to_terminal(rows, cursor)
    need = base + len(rows) - (sb0 + h)
    scrolls = need if need > 0 else 0
    if model.scrolls - scr0 != scrolls:
        return False
    off = scrolls - top0 if scrolls > top0 else 0
    if ret != off:
        return False
    if win.top_usable_row != (top0 - scrolls if top0 > scrolls else 0):
        return False
    want = state["tape"][:base] + [_padded(r, w) for r in rows]
    while len(want) < sb0 + scrolls + h:
        want.append([BLANK] * w)
    tape = _tape(model)
    if not _rows_eq(tape, want):
        return False
    # the cursor sits on the cell cursor_pos designates
    crow = base + cursor[0] - len(model.scrollback)
    if (model.r, model.c) != (crow, cursor[1]):
        return False
    if model.unknown:
        return False
    state["tape"] = want
    state["off"] = off
    return True


def history(ta: str, tb: str, s1: int, s2: int, ca_last: bool, cb_last: bool, second: bool) -> bool:
    """
    pre: len(ta) == 10 and len(tb) == 10
    pre: H.sel_ok(len(CASES), s1, s2)
    post: _
    """
    h, w, r0, sb = P["h"], P["w"], P["r0"], P["sb"]
    cc = P["cc"]
    specA = ENV["specA"]
    specB = H.pick(CASES, s1, s2)
    win, rec, inp = ENV["win"], ENV["rec"], ENV["inp"]
    model, hist = _initial(h, w, r0, sb, P.get("below", False))
    rec.model = model
    inp.model = model
    SIZE[0], SIZE[1] = h, w
    win._last_lines_by_row = {}
    win._last_rendered_width = None
    win._last_rendered_height = None
    win._last_cursor_row = None
    win._last_cursor_column = None
    model.cursor_visible = True
    win.__enter__()
    if win.top_usable_row != r0 or model.cursor_visible != (not P["hide"]):
        return verdict(False)
    state = {"tape": _tape(model)}
    rowsA = _mk_rows(specA, ta)
    # cursor target: a visible cell of the array (row index within the array, column < width)
    if not (cc < w):
        return True
    offA = (sb + r0 + len(rowsA)) - (sb + h)
    offA = offA - r0 if offA > r0 else 0
    if len(rowsA) == 0:
        curA = (0, 0)
        if ca_last:
            return True
    else:
        curA = ((len(rowsA) - 1) if ca_last else offA, cc)      # last row / first visible row of the array
    if not _render_and_check(win, model, rowsA, curA, state, w, h):
        return verdict(False)
    if second:
        rowsB = _mk_rows(specB, tb)
        base = len(model.scrollback) + win.top_usable_row
        need = base + len(rowsB) - (len(model.scrollback) + h)
        sc = need if need > 0 else 0
        offB = sc - win.top_usable_row if sc > win.top_usable_row else 0
        if len(rowsB) == 0:
            curB = (0, 0)
            if cb_last:
                return True
        else:
            curB = ((len(rowsB) - 1) if cb_last else offB, cc)
        if not _render_and_check(win, model, rowsB, curB, state, w, h):
            return verdict(False)
    elif cb_last:
        return True
    # ---- one more render, of the empty array: the window's rows must all end up blank whatever the row cache believes.
    # (Skipped when the last render put the cursor on the array's last row, so that the context is also left with the
    # cursor wherever a render leaves it - in particular on the bottom row of the screen.)
    if not (cb_last if second else ca_last):
        if not _render_and_check(win, model, [], (0, 0), state, w, h):
            return verdict(False)
    # ---- leaving: rows above the cursor unchanged, nothing below it remains
    before = _tape(model)
    crow_tape = len(model.scrollback) + model.r
    sc0 = model.scrolls
    win.__exit__(None, None, None)
    after = _tape(model)
    moved = 1 if P["keep"] else 0
    keep_rows = crow_tape + moved              # rows [0, keep_rows) of the tape stay
    want = before[:keep_rows]
    while len(want) < len(after):
        want.append([BLANK] * w)
    ok = _rows_eq(after, want) and model.cursor_visible and model.c == 0
    return verdict(ok, second and len(specB) >= 1 and len(specA) >= 1)


# ---------------------------------------------------------------- concrete twin (plain CPython, real strings, pyte)
def concrete(fn, params, args):
    import pyte
    import blessed
    import curtsies.window as cw
    os.environ.setdefault("TERM", "xterm-256color")
    P.clear()
    P.update(params)
    ta, tb, s1, s2, ca_last, cb_last, second = args
    cc = params["cc"]
    from chx.harness.c02 import _sanitize
    ta, tb = _sanitize([ta, tb])
    h, w, r0, sb = params["h"], params["w"], params["r0"], params["sb"]
    specA = _arrays(h, w, True)[params["A"]]
    specB = H.pick_concrete(_b_cases(), s1, s2)
    if not (cc < w):
        return {"ok": True, "observed": "not a case", "call": "-"}
    scr = pyte.HistoryScreen(w, h, history=50, ratio=0.5)
    st = pyte.Stream(scr)
    hist_text = []
    for i in range(sb + r0):
        line = (MARK[i % len(MARK)] + ("=" if i < sb else "-") * (w - 1))[:w]
        hist_text.append(line)
    # print the history the way a shell would: full-width lines followed by CR LF (except that the screen is exactly filled)
    total = sb + r0
    for i, line in enumerate(hist_text):
        st.feed(line + "\r\n")
    for _ in range(max(0, h - r0 - 1) if sb else 0):
        pass
    # push `sb` lines into the scrollback: feed blank newlines until the first r0-line block sits at the top
    # (simplest faithful construction: start from a screen of sb + r0 lines printed at the bottom)
    class In:
        encoding = "utf8"

        def __init__(self):
            self.buf = []

        def read(self, n):
            return self.buf.pop(0) if self.buf else ""

    inp = In()
    out = io.StringIO()
    size = [h, w]

    class SizedTerminal(blessed.Terminal):
        height = property(lambda self: size[0])
        width = property(lambda self: size[1])

    orig_cbreak = cw.Cbreak
    cw.Cbreak = NoCbreak
    try:
        win = cw.CursorAwareWindow(out_stream=out, in_stream=inp, keep_last_line=params["keep"], hide_cursor=params["hide"])
        win.t = SizedTerminal(stream=out, force_styling=True)
        # build the initial screen directly: r0 marker rows, cursor on row r0 (scrollback lines cannot be observed through
        # pyte's screen; the replay checks the screen part and the scroll accounting)
        scr.reset()
        for r in range(r0):
            st.feed("\x1b[%d;1H" % (r + 1) + hist_text[sb + r])
        if params.get("below"):
            for r in range(r0, h):
                st.feed("\x1b[%d;1H\x1b[35m~\x1b[m" % (r + 1) + "+" * (w - 1))
        st.feed("\x1b[%d;1H" % (r0 + 1))

        def pump():
            data = out.getvalue()
            out.seek(0)
            out.truncate()
            # answer the cursor query like a terminal
            if "\x1b[6n" in data:
                before, _, after = data.partition("\x1b[6n")
                st.feed(before)
                inp.buf.extend("\x1b[%d;%dR" % (scr.cursor.y + 1, scr.cursor.x + 1))
                st.feed(after)
            else:
                st.feed(data)

        # __enter__ writes the query and then reads: answer from the current cursor
        inp.buf.extend("\x1b[%d;%dR" % (scr.cursor.y + 1, scr.cursor.x + 1))
        win.__enter__()
        data = out.getvalue().replace("\x1b[6n", "")
        out.seek(0)
        out.truncate()
        st.feed(data)
        call = "%dx%d terminal, %d marker lines above the cursor%s; enter" % (h, w, r0, ", old output on the cursor's row and below" if params.get("below") else "")
        screen_hist = [hist_text[sb + r] for r in range(r0)]      # history rows still on screen, top first
        top = r0
        scrolled_total = 0

        def render(rows, cur):
            nonlocal top, screen_hist, scrolled_total
            ret = win.render_to_terminal(rows, cur)
            pump()
            need = top + len(rows) - h
            scrolls = max(0, need)
            off = max(0, scrolls - top)
            newtop = max(0, top - scrolls)
            want = []
            hist_visible = screen_hist[len(screen_hist) - newtop:] if newtop else []
            for line in hist_visible:
                want.append(line.ljust(w))
            vis = rows[off:]
            for r in vis:
                want.append(("".join(c for c, _ in Tagged(r).cells())).ljust(w)[:w])
            while len(want) < h:
                want.append(" " * w)
            crow = newtop + (cur[0] - off)
            ok = scr.display == want and ret == off and (scr.cursor.y, scr.cursor.x) == (crow, cur[1])
            obs = "screen %r returned %r cursor %r" % (scr.display, ret, (scr.cursor.y, scr.cursor.x))
            exp = "screen %r returned %r cursor %r" % (want, off, (crow, cur[1]))
            top = newtop
            screen_hist = hist_visible
            return ok, obs, exp

        rowsA = _mk_rows(specA, ta)
        needA = r0 + len(rowsA) - h
        offA = max(0, max(0, needA) - r0)
        if rowsA:
            curA = ((len(rowsA) - 1) if ca_last else offA, cc)
        else:
            if ca_last:
                return {"ok": True, "observed": "not a case", "call": "-"}
            curA = (0, 0)
        ok, obs, exp = render(rowsA, curA)
        call += "; render(%r, %r)" % (rowsA, curA)
        if not ok:
            return {"ok": False, "observed": obs, "expected": exp, "call": call}
        if second:
            rowsB = _mk_rows(specB, tb)
            needB = top + len(rowsB) - h
            offB = max(0, max(0, needB) - top)
            if rowsB:
                curB = ((len(rowsB) - 1) if cb_last else offB, cc)
            else:
                if cb_last:
                    return {"ok": True, "observed": "not a case", "call": "-"}
                curB = (0, 0)
            ok, obs, exp = render(rowsB, curB)
            call += "; render(%r, %r)" % (rowsB, curB)
            if not ok:
                return {"ok": False, "observed": obs, "expected": exp, "call": call}
        elif cb_last:
            return {"ok": True, "observed": "not a case", "call": "-"}
        if not (cb_last if second else ca_last):
            ok, obs, exp = render([], (0, 0))
            call += "; render([], (0, 0))"
            if not ok:
                return {"ok": False, "observed": obs, "expected": exp, "call": call}
        before = list(scr.display)
        crow = scr.cursor.y
        win.__exit__(None, None, None)
        pump()
        call += "; leave (keep_last_line=%r)" % params["keep"]
        if params["keep"] and crow == h - 1:
            want = before[1:] + [" " * w]          # the line feed on the last row scrolls once; everything kept
            want = want[:h - 1] + [" " * w]
        else:
            k = crow + (1 if params["keep"] else 0)
            want = before[:k] + [" " * w] * (h - k)
        ok = scr.display == want and not scr.cursor.hidden and scr.cursor.x == 0
        return {"ok": ok, "observed": "screen %r hidden %r cursor column %d" % (scr.display, scr.cursor.hidden, scr.cursor.x),
                "expected": "screen %r cursor visible, in column 0" % (want,), "call": call}
    finally:
        cw.Cbreak = orig_cbreak
