"""C15 - str methods on a FmtStr agree with str on its text.

Real code: FmtStr.split, splitlines, ljust, rjust, __getattr__ delegation (func_help), shared_atts,
fmtstr, FmtStr.__getitem__, new_with_atts_removed, __add__.
Symbolic: 1..2 runs whose texts are native CrossHair strings (characters symbolic over a small
alphabet that makes separators, newlines and spaces likely), widths symbolic; the method and its
concrete arguments (separator, fill character, regex) are fixed per instance.
Oracle: the same method on f.s (CrossHair's model of str; replays use CPython's str), per-character
formatting of pieces (= the corresponding slice of f) and formatting bounds for other text results.
"""
import re

from chx import hsupport as H
from chx.hsupport import P, verdict
from chx.common import disp, cells, fmt_cells

PROP = "C15"
FUNCTIONS = ["FmtStr.split", "FmtStr.splitlines", "FmtStr.ljust", "FmtStr.rjust", "FmtStr.__getattr__ / func_help",
             "FmtStr.shared_atts", "fmtstr", "FmtStr.__getitem__", "FmtStr.new_with_atts_removed", "FmtStr.__add__", "FmtStr.s"]
BOUNDS = ("f: 1..2 runs, total text length <= 3 (quick) / 4 (thorough), every character symbolic over the instance's alphabet "
          "(letters a b A, ',', ' ', newline, CR; digits for zfill/isdigit); widths symbolic 0..len+2; method + concrete "
          "arguments from a 65-entry catalogue (native split / regex split / splitlines / ljust / rjust and 25 delegated "
          "str methods)")
STUBS = ["CrossHair's models of the str methods and of re (violations are replayed with CPython's str / re); regex separators that "
         "can match the empty string are outside (CrossHair 0.0.110's re model and CPython disagree on empty matches in split)"]

ATT_LAYOUTS = [({"fg": 31}, {"fg": 31, "bold": True}), ({"bg": 44}, {}), ({"fg": 31, "bg": 44}, {"fg": 31, "bg": 44})]

# (name, kind, args, alphabet)   kind: pieces = list of slices of f ; text ; value
CATALOGUE = (
    [("split", "pieces", (sep,), "ab, \n") for sep in (",", " ", "a", ", ", "\n")]
    + [("split", "pieces", ("aa",), "ab"), ("split", "pieces", ("--",), "a-")]
    + [("ljust", "textw", (None,), "WIDE"), ("rjust", "textw", (None,), "WIDE"), ("ljust", "textw", ("*",), "WIDE")]
    + [("split", "pieces_regex", (pat,), "ab, \n") for pat in ("[, ]", "a+", ",\\s*")]
    + [("splitlines", "lines", (ke,), alpha) for ke in (False, True) for alpha in ("ab\n", "a\n\r")]
    + [("ljust", "textw", (fill,), "ab ") for fill in (None, "*")]
    + [("rjust", "textw", (fill,), "ab ") for fill in (None, "*")]
    + [("center", "textw", (fill,), "ab ") for fill in (None, "*")]
    + [(m, "text", (), "abA ") for m in ("upper", "lower", "title", "capitalize", "swapcase", "strip", "lstrip", "rstrip", "casefold")]
    + [("strip", "text", ("a",), "ab "), ("rstrip", "text", ("ab",), "ab,")]
    + [("replace", "text", ("a", "bb"), "ab "), ("replace", "text", ("ab", ""), "ab "), ("replace", "text", (" ", "a"), "ab ")]
    + [("zfill", "textw", (), "a1-")]
    + [("expandtabs", "text", (2,), "a\t")]
    + [(m, "value", ("a",), "ab ") for m in ("find", "rfind", "count", "startswith", "endswith")]
    + [("find", "value", ("ab",), "ab "), ("count", "value", ("aa",), "ab ")]
    + [(m, "value", (), "aA1 ") for m in ("isdigit", "isalpha", "isspace", "isupper", "islower", "isalnum")]
    + [("partition", "value", (",",), "ab,"), ("rpartition", "value", (",",), "ab,")]
    + [("encode", "value", ("utf8",), "abé")]
    + [("split", "pieces", (".",), "ab."), ("split", "pieces", ("|",), "a|b"), ("split", "pieces_regex", ("a|b",), "ab|")]
    # every line boundary str.splitlines knows besides \n and \r
    + [("splitlines", "lines", (ke,), "a\x0b\x0c\x1c\x1d\x1e\x85\u2028\u2029") for ke in (False, True)]
)


# methods whose CrossHair str model is too slow for symbolic characters (measured: minutes per path): their texts come
# from a catalogue enumerated by the solver (the delegation code under test never looks at the characters)
SLOW = {"title", "capitalize", "swapcase", "casefold", "isdigit", "isalpha", "isspace", "isupper", "islower", "isalnum",
        "upper", "lower", "expandtabs", "encode", "zfill"}
CAT_TEXTS = ["", "a", "A", " ", "ab", "aB", "a b", "Ab ", " a", "a1", "1", "-1", "a\tb", "\u00e9a", "ab c", "A B"]
WIDE_TEXTS = ["", "a", "\uff25", "a\uff25", "\uff25\uff25b", "a\u0301", "\u0301", "a\nb", "\u65e5\u672cx"]
CASES = []


def instances(tier, seed):
    out = []
    T = 200 if tier == "quick" else 900
    L = 3 if tier == "quick" else 4
    for ci, (name, kind, args, alpha) in enumerate(CATALOGUE):
        for K in (1, 2):
            layouts = [0] if tier == "quick" else [0, 1, 2]
            if tier == "quick" and K == 2 and name in ("ljust", "rjust", "center", "strip", "replace"):
                layouts = [0, 1]
            for lay in layouts:
                if name in SLOW or alpha == "WIDE":
                    out.append({"name": "m%02d-%s-K%d-l%d-cat" % (ci, name, K, lay), "fn": "method_cat", "timeout": T, "cost": 1,
                                "params": {"ci": ci, "K": K, "layout": lay, "cat": True}})
                else:
                    out.append({"name": "m%02d-%s-K%d-l%d" % (ci, name, K, lay), "fn": "method", "timeout": T,
                                "cost": 5 if "regex" in kind or kind == "pieces" else 1,
                                "params": {"ci": ci, "K": K, "L": L, "layout": lay}})
    # history twins: the same method was called before on the same value with the OTHER mode / other arguments (literal vs
    # regex separator, keepends, width): the second result must not depend on the first call
    for ci, (name, kind, args, alpha) in enumerate(CATALOGUE):
        if kind in ("pieces", "pieces_regex", "lines") or (kind == "textw" and alpha != "WIDE" and name not in SLOW):
            if tier == "quick" and kind == "pieces" and args[0] not in (".", "|", ",", "a"):
                continue
            out.append({"name": "m%02d-%s-K1-l0-primed" % (ci, name), "fn": "method", "timeout": T, "cost": 5,
                        "params": {"ci": ci, "K": 1, "L": L, "layout": 0, "prime": True}})
    # a method applied to a PIECE of a FmtStr whose own views were already used (history of three steps)
    for lay in ((0,) if tier == "quick" else (0, 1)):
        for second in ("ljust", "center*", "strip", "replace"):
            out.append({"name": "chain-%s-l%d" % (second.replace("*", "fill"), lay), "fn": "chain", "timeout": T, "cost": 30,
                        "params": {"K": 2, "L": 2 if tier == "quick" else 3, "layout": lay, "second": second, "ci": 12}})
    # join against str.join (items: str and FmtStr, empty ones included)
    for shape in ("ss", "sf", "fs", "sss", "fsf"):
        out.append({"name": "join-%s" % shape, "fn": "join", "timeout": T, "cost": 2, "params": {"shape": shape, "L": 1, "K": 1, "ci": 0, "layout": 0}})
    return out


def _cat_cases():
    out = []
    for t in (WIDE_TEXTS if CATALOGUE[P["ci"]][3] == "WIDE" else CAT_TEXTS):
        if P["K"] == 1:
            out.append((t, ""))
        else:
            for cut in range(0, len(t) + 1):
                out.append((t[:cut], t[cut:]))
    return out


def setup(params):
    if params.get("cat"):
        CASES[:] = _cat_cases()


def witness_instances(fn, lst, tier):
    return [i for i in lst if i["params"]["ci"] == 0 and i["params"]["K"] == 2][:1]


def _pre(t0, t1, w):
    K, L = P["K"], P["L"]
    alpha = CATALOGUE[P["ci"]][3]
    if K == 1 and len(t1):
        return False
    if len(t0) + len(t1) > L:
        return False
    if not (0 <= w <= len(t0) + len(t1) + 2):
        return False
    return all(c in alpha for c in t0 + t1)


def _build(t0, t1):
    from curtsies.formatstring import FmtStr, Chunk
    a = ATT_LAYOUTS[P["layout"]]
    if P["K"] == 1:
        return FmtStr(Chunk(t0, a[0]))
    return FmtStr(Chunk(t0, a[0]), Chunk(t1, a[1]))


def _call(obj, name, kind, args, w):
    if not isinstance(obj, str):
        obj.s        # (CrossHair runs the builtin getattr() untraced: make sure FmtStr.__getattr__ finds the text memoised)
    m = getattr(obj, name)
    if kind == "pieces_regex":
        return m(args[0], regex=True)
    if kind == "textw":
        if args and args[0] is not None:
            return m(w, args[0])
        return m(w)
    if kind == "lines":
        return m(args[0])
    return m(*args)


def _prime(f, name, kind, args, w):
    """history: an earlier call of the same method on the same value in the other mode (its result is not looked at)"""
    try:
        if kind == "pieces":
            f.split(args[0], regex=True)
        elif kind == "pieces_regex":
            f.split(args[0])
        elif kind == "lines":
            f.splitlines(not args[0])
        elif kind == "textw":
            _call(f, name, kind, args, w + 1)
    except Exception:      # noqa - e.g. a separator that is not a valid pattern
        pass


def _scells(f):
    return [(c, disp(ch.atts)) for ch in f.chunks for c in ch.s]


def _bounds_ok(res_cells, src_cells):
    """text result: every character carries what all characters of the source share, nothing that none had"""
    if not src_cells:
        return True
    first = src_cells[0][1]
    shared = {k: v for k, v in first.items() if all(d.get(k) == v for _, d in src_cells)}
    for _, d in res_cells:
        for k, v in shared.items():
            if d.get(k) != v:
                return False
        for k, v in d.items():
            if not any(sd.get(k) == v for _, sd in src_cells):
                return False
    return True


def _spans(text, kind, args):
    """(start, end) of every piece str.split / re.split / str.splitlines produces, in the source text"""
    out = []
    if kind == "pieces":
        sep = args[0]
        pos = 0
        while True:
            i = text.find(sep, pos)
            if i < 0:
                out.append((pos, len(text)))
                return out
            out.append((pos, i))
            pos = i + len(sep)
    if kind == "pieces_regex":
        pos = 0
        for m in re.finditer(args[0], text):
            out.append((pos, m.start()))
            pos = m.end()
        out.append((pos, len(text)))
        return out
    pos = 0
    for with_end, without in zip(text.splitlines(True), text.splitlines()):
        out.append((pos, pos + len(with_end if args[0] else without)))
        pos += len(with_end)
    return out


def _judge(r, e, kind, name, args, src_cells, is_fmt):
    from curtsies.formatstring import FmtStr
    if kind in ("pieces", "pieces_regex", "lines"):
        if not isinstance(r, list) or len(r) != len(e):
            return False
        text = "".join(c for c, _ in src_cells)
        spans = _spans(text, kind, args)
        if len(spans) != len(e):
            return False
        for piece, want, (lo, hi) in zip(r, e, spans):
            if not isinstance(piece, FmtStr) or piece.s != want:
                return False
            if _scells(piece) != src_cells[lo:hi]:
                return False
        return True
    if isinstance(e, str):
        if not isinstance(r, FmtStr) or r.s != e:
            return False
        rc = _scells(r)
        if name in ("ljust", "rjust") and not (args and args[0] is not None) and len(rc) >= len(src_cells) and src_cells:
            # padding without a fill character: the original characters are judged as text, the padding spaces must show the
            # shared background when there is one (all shared formatting otherwise) and nothing that no character had -
            # whether the padding also carries the other shared attributes is not fixed by the statement (the repository's
            # own test_ljust_rjust pins background-only padding)
            npad = len(rc) - len(src_cells)
            pad = rc[len(src_cells):] if name == "ljust" else rc[:npad]
            body = rc[:len(src_cells)] if name == "ljust" else rc[npad:]
            first = src_cells[0][1]
            shared = {k: v for k, v in first.items() if all(d.get(k) == v for _, d in src_cells)}
            need = {"bg": shared["bg"]} if "bg" in shared else shared
            for _, d in pad:
                for k, v in need.items():
                    if d.get(k) != v:
                        return False
                for k, v in d.items():
                    if not any(sd.get(k) == v for _, sd in src_cells):
                        return False
            return _bounds_ok(body, src_cells)
        return _bounds_ok(rc, src_cells)
    if isinstance(e, list):
        if not isinstance(r, list) or len(r) != len(e):
            return False
        return all(isinstance(x, FmtStr) and x.s == y for x, y in zip(r, e))
    return r == e


def method(t0: str, t1: str, w: int) -> bool:
    """
    pre: _pre(t0, t1, w)
    post: _
    """
    name, kind, args, alpha = CATALOGUE[P["ci"]]
    f = _build(t0, t1)
    src = _scells(f)
    text = t0 + t1
    if kind == "pieces_regex":
        e = re.split(args[0], text)
    else:
        e = _call(text, name, kind, args, w)
    if P.get("prime"):
        _prime(f, name, kind, args, w)
    r = _call(f, name, kind, args, w)
    ok = _judge(r, e, kind, name, args, src, True)
    ok = ok and _scells(f) == src
    return verdict(ok, len(t0) >= 1 and len(text) >= 2)


def chain(t0: str, t1: str, w: int, a: int, b: int) -> bool:
    """
    pre: _pre(t0, t1, w) and 0 <= a <= b <= len(t0) + len(t1)
    post: _
    """
    f = _build(t0, t1)
    f.ljust(0)
    f.strip()                      # the parent's views (shared_atts, s) have been used
    piece = f[a:b]
    src = _scells(piece)
    text = (t0 + t1)[a:b]
    second = P["second"]
    if second == "ljust":
        r, e = piece.ljust(w), text.ljust(w)
    elif second == "center*":
        r, e = piece.center(w, "*"), text.center(w, "*")
    elif second == "strip":
        r, e = piece.strip(), text.strip()
    else:
        r, e = piece.replace("a", "bb"), text.replace("a", "bb")
    ok = _judge(r, e, "text", second, (), src, True)
    return verdict(ok, b - a >= 1 and a >= 1)


def join(t0: str, t1: str, t2: str, sp: str) -> bool:
    """
    pre: len(t0) <= 1 and len(t1) <= 1 and len(t2) <= 1 and len(sp) <= 1 and all(c in "ab," for c in t0 + t1 + t2 + sp)
    pre: len(P["shape"]) == 3 or t2 == ""
    post: _
    """
    from curtsies.formatstring import FmtStr, Chunk
    shape = P["shape"]
    sep = FmtStr(Chunk(sp, {"fg": 36}))
    texts = [t0, t1, t2][:len(shape)]
    items = [t if k == "s" else FmtStr(Chunk(t, {"bold": True})) for t, k in zip(texts, shape)]
    r = sep.join(items)
    e = sp.join(texts)
    for it, t, k in zip(items, texts, shape):
        # the operands are not touched: a FmtStr item still is what it was
        if k != "s" and (it.s != t or _scells(it) != [(c, {"bold": True}) for c in t]):
            return verdict(False)
    want = []
    for i, (t, k) in enumerate(zip(texts, shape)):
        if i:
            want += [(c, {"fg": 36}) for c in sp]
        want += [(c, ({} if k == "s" else {"bold": True})) for c in t]
    return verdict(r.s == e and _scells(r) == want, len(sp) == 1 and len(t1) == 1)


def method_cat(s1: int, s2: int, w: int) -> bool:
    """
    pre: H.sel_ok(len(CASES), s1, s2) and 0 <= w <= 6
    post: _
    """
    t0, t1 = H.pick(CASES, s1, s2)
    name, kind, args, alpha = CATALOGUE[P["ci"]]
    if kind != "textw" and w != 0:
        return True
    f = _build(t0, t1)
    src = _scells(f)
    text = t0 + t1
    e = _call(text, name, kind, args, w)
    r = _call(f, name, kind, args, w)
    ok = _judge(r, e, kind, name, args, src, True) and _scells(f) == src
    return verdict(ok, len(text) >= 2)


# ---------------------------------------------------------------- concrete twin (plain CPython)
def concrete(fn, params, args):
    P.clear()
    P.update(params)
    if fn == "join":
        from curtsies.formatstring import FmtStr, Chunk
        t0, t1, t2, sp = args
        shape = params["shape"]
        sep = FmtStr(Chunk(sp, {"fg": 36}))
        texts = [t0, t1, t2][:len(shape)]
        items = [t if k == "s" else FmtStr(Chunk(t, {"bold": True})) for t, k in zip(texts, shape)]
        want = []
        for i, (t, k) in enumerate(zip(texts, shape)):
            if i:
                want += [(c, {"fg": 36}) for c in sp]
            want += [(c, ({} if k == "s" else {"bold": True})) for c in t]
        r = sep.join(items)
        for it, t, k in zip(items, texts, shape):
            if k != "s" and (it.s != t or cells(it) != [(c, {"bold": True}) for c in t]):
                return {"ok": False, "observed": "after the join the item is %r" % (it,), "expected": "items unchanged: %r" % (t,), "call": "%r.join(...)" % (sep,)}
        return {"ok": r.s == sp.join(texts) and cells(r) == want, "observed": repr(r), "expected": fmt_cells(want), "call": "%r.join(%r)" % (sep, items)}
    if fn == "chain":
        t0, t1, w, a, b = args
        f = _build(t0, t1)
        f.ljust(0)
        f.strip()
        piece = f[a:b]
        src = cells(piece)
        text = (t0 + t1)[a:b]
        second = params["second"]
        if second == "ljust":
            r, e = piece.ljust(w), text.ljust(w)
        elif second == "center*":
            r, e = piece.center(w, "*"), text.center(w, "*")
        elif second == "strip":
            r, e = piece.strip(), text.strip()
        else:
            r, e = piece.replace("a", "bb"), text.replace("a", "bb")
        return {"ok": _judge(r, e, "text", second, (), src, True), "observed": repr(r), "expected": "text %r within the formatting bounds of %r" % (e, piece),
                "call": "f=%r; f.ljust(0); f.strip(); f[%d:%d].%s(...)" % (f, a, b, second)}
    if fn == "method_cat":
        t0, t1 = H.pick_concrete(_cat_cases(), args[0], args[1])
        w = args[2]
        if CATALOGUE[params["ci"]][1] != "textw" and w != 0:
            return {"ok": True, "observed": "skipped", "call": "-"}
    else:
        t0, t1, w = args
    name, kind, margs, alpha = CATALOGUE[params["ci"]]
    f = _build(t0, t1)
    src = cells(f)
    text = t0 + t1
    call = "%r.%s(%s)" % (f, name, ", ".join(repr(a) for a in ((w,) if kind == "textw" else ()) + tuple(a for a in margs if a is not None)))
    try:
        e = re.split(margs[0], text) if kind == "pieces_regex" else _call(text, name, kind, margs, w)
    except Exception as ex:
        return {"ok": None, "note": "str itself raises %r" % (ex,)}
    if params.get("prime"):
        _prime(f, name, kind, margs, w)
        call += " [after a call in the other mode / with other arguments]"
    try:
        r = _call(f, name, kind, margs, w)
    except Exception as ex:
        return {"ok": False, "observed": "raised %r" % (ex,), "expected": repr(e), "call": call}
    ok = _judge(r, e, kind, name, margs, src, True) and cells(f) == src
    return {"ok": ok, "observed": repr(r), "expected": "like str: %r (pieces keep per-character formatting; other text within the formatting bounds)" % (e,), "call": call}
