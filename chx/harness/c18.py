"""C18 - cursor position query parses the report exactly; movement is conserved.

Real code: CursorAwareWindow.get_cursor_position (incl. retrying_read), get_cursor_vertical_diff,
_get_cursor_vertical_diff_once.
(a) parse: in_stream is a scripted reader over  extra + CSI + row ; col R + trailing.  The class
    of every `extra` / `trailing` character is a selector enumerated by the solver, the character
    itself is symbolic inside its class; row and column digits are symbolic; a symbolic fault
    schedule makes up to two reads raise OSError first.
(c) render_diff: enter / render with a symbolic cursor row (rows scrolled off the top included) / the content moves
    k rows / get_cursor_vertical_diff, on the terminal model of C07: the baseline is whatever the render really left.
(b) conservation: pure integers.  top_usable_row >= 0, _last_cursor_row (or None) and the rows the
    terminal reports are symbolic; get_cursor_position is stubbed to return them and, by a
    selector, to re-enter get_cursor_vertical_diff first (the SIGWINCH case).
"""
import io
import itertools

from chx import hsupport as H
from chx.hsupport import P, verdict

PROP = "C18"
FUNCTIONS = ["CursorAwareWindow.get_cursor_position", "get_cursor_position.retrying_read", "CursorAwareWindow.get_cursor_vertical_diff",
             "CursorAwareWindow._get_cursor_vertical_diff_once", "BaseWindow.write"]
BOUNDS = ("(a) extra: 0..2 characters (thorough 3) over 8 classes {ESC, '[', 0x9b, digit, ';', 'R', letter, newline/CR}, "
          "symbolic within the class, not containing a complete look-alike report; CSI 7-bit and 8-bit; row 1..3 digits, "
          "column 1..2 digits (5 literal reports incl. leading zeros: 1;1 120;45 07;9 9;10 3;7); trailing 0..1 characters; up to 2 reads fail "
          "with OSError at symbolic positions; with and without extra_bytes_callback. (b) top_usable_row >= 0, last row "
          "None or any int >= 0, up to 3 reported rows with |movement| <= 12 each, re-entrant call during any query. (c) terminals 2x2, 3x2 "
          "(thorough + 4x2, 3x3), start row any, arrays of height 0..h+2 (quick: seeded sample), cursor row any array row, movement -2..2")
STUBS = ["scripted in_stream (read(1), encoding); StringIO out_stream; the window object is built once outside the tracer "
         "(blessed.Terminal construction is not the subject) and its fields are reset on every path",
         "(b) get_cursor_position replaced by a stub returning the symbolic rows (its parsing is part (a))",
         "CrossHair's regex model (violations are replayed with CPython's re)"]

CLASSES = {
    "E": (0x1B, 1), "B": (0x5B, 1), "C": (0x9B, 1), "D": (0x30, 10), "S": (0x3B, 1), "R": (0x52, 1), "L": (0x61, 8), "N": (0x0A, 4),
}
WORDS = []
WIN = []


def instances(tier, seed):
    out = []
    T = 200 if tier == "quick" else 900
    maxextra = 2 if tier == "quick" else 3
    words = [""]
    for n in range(1, maxextra + 1):
        words += ["".join(w) for w in itertools.product("EBCDSRLN", repeat=n)]
    words = [w for w in words if not _has_report(w)]
    per = 2 if tier == "quick" else 4
    if tier == "quick":
        keep2 = {"ED", "DD", "EB", "SD", "CD", "ND", "LE", "DR", "RD", "BD", "DS", "NN", "EL"}
        words = [w for w in words if len(w) <= 1 or w in keep2]
    if tier != "quick":
        # thorough = the quick instances, then every word of <= 2 classes with every (CSI form, callback, report), then the
        # words of 3 classes in chunks of 16 with the report variant rotating over the chunks
        out += instances("quick", seed)
    short_end = len([w for w in words if len(w) <= 2])
    for csi in ("7", "8"):
        for cb in (True, False):
            for vi in range(len(VARIANTS)):
                for i in range(0, len(words), per):
                    if tier == "quick" and (csi, cb, vi) not in (("7", True, 1), ("7", False, 0), ("8", True, 2), ("8", False, 3), ("8", True, 4), ("7", False, 4)):
                        continue
                    if tier != "quick" and i >= short_end and ((i // per) % (4 * len(VARIANTS)) != vi * 4 + (csi == "8") * 2 + cb):
                        continue
                    out.append({"name": "parse-csi%s-%s-v%d-%03d%s" % (csi, "cb" if cb else "nocb", vi, i, "" if tier == "quick" else "t"), "fn": "parse", "timeout": T, "cost": 3,
                                "params": {"csi": csi, "cb": cb, "lo": i, "hi": i + per, "maxextra": maxextra, "variant": vi, "quickwords": tier == "quick"}})
    # (c) the baseline really left by a render: enter, render (cursor row symbolic, rows scrolled off the top included), the
    # content moves k rows, get_cursor_vertical_diff - against the terminal model of C07 (which answers the cursor query)
    for (h, w) in ((2, 2), (3, 2)) if tier == "quick" else ((2, 2), (3, 2), (4, 2), (3, 3)):
        for r0 in range(h):
            out.append({"name": "renderdiff-%dx%d-r%d" % (h, w, r0), "fn": "render_diff", "timeout": T, "cost": 4,
                        "params": {"h": h, "w": w, "r0": r0, "sb": 0, "A": 0, "keep": False, "hide": False, "cc": 0, "seed": seed,
                                   "limit": 12 if tier == "quick" else 60, "rd": True}})
    for nq in (1, 2, 3):
        for last in ("none", "int"):
            out.append({"name": "diff-q%d-%s" % (nq, last), "fn": "diff", "timeout": T, "cost": 4,
                        "params": {"nq": nq, "last": last, "maxmove": {1: 12, 2: 4, 3: 2}[nq] if tier == "quick" else {1: 12, 2: 12, 3: 6}[nq]}})
    seen = set()
    uniq = []
    for inst in out:
        if inst["name"] not in seen:
            seen.add(inst["name"])
            uniq.append(inst)
    return uniq


# (row digits, column digits, read indices that raise OSError first, class of one trailing character or None)
VARIANTS = [("1", "1", (), None), ("120", "45", (0,), "D"), ("07", "9", (2, 5), "R"), ("9", "10", (1, 2), "L"),
            ("3", "7", (), "L")]       # the shortest possible report with input waiting behind it


def witness_instances(fn, lst, tier):
    if fn == "render_diff":
        return lst[-1:]
    if fn == "diff":
        return [i for i in lst if i["params"]["nq"] == 2][:1]
    return [i for i in lst if i["params"]["cb"] and i["params"]["variant"] == 1 and i["params"]["lo"] == 25][:1]


def _has_report(word):
    """class word contains a complete look-alike report: (E B | C) D+ S D+ R"""
    import re
    return re.search(r"(EB|C)D+SD+R", word) is not None


def _all_words(maxextra):
    words = [""]
    for n in range(1, maxextra + 1):
        words += ["".join(w) for w in itertools.product("EBCDSRLN", repeat=n)]
    words = [w for w in words if not _has_report(w)]
    if P.get("quickwords"):
        keep2 = {"ED", "DD", "EB", "SD", "CD", "ND", "LE", "DR", "RD", "BD", "DS", "NN", "EL"}
        words = [w for w in words if len(w) <= 1 or w in keep2]
    return words


def setup(params):
    import os
    os.environ.setdefault("TERM", "xterm-256color")
    from curtsies.window import CursorAwareWindow
    if params.get("rd"):
        from chx.harness import c07
        c07.setup(params)
        return
    if "lo" in params:
        WORDS[:] = _all_words(params["maxextra"])[params["lo"]:params["hi"]]
    WIN[:] = [CursorAwareWindow(out_stream=io.StringIO(), in_stream=io.StringIO(), hide_cursor=False)]


class ScriptedIn:
    """in_stream: read(n) returns the next (up to n) scripted characters; the reads whose index is in `faults` raise OSError first"""
    encoding = "utf8"

    def __init__(self, chars, faults):
        self.chars = chars
        self.pos = 0
        self.calls = 0
        self.faults = faults

    def read(self, n):
        k = self.calls
        self.calls += 1
        if k in self.faults:
            raise OSError("scripted read failure")
        if self.pos >= len(self.chars):
            return ""
        c = self.chars[self.pos]
        self.pos += 1
        # like a stream: a read of n characters takes up to n of what is waiting
        while n is not None and n > 1 and self.pos < len(self.chars) and len(c) < n:
            c = c + self.chars[self.pos]
            self.pos += 1
        return c


def _mk(word, ds):
    return [chr(CLASSES[k][0] + d) for k, d in zip(word, ds)]


def parse(sel: int, e0: int, e1: int, e2: int, t0: int) -> bool:
    """
    pre: 0 <= sel < len(WORDS)
    post: _
    """
    from crosshair.core import realize
    word = WORDS[realize(sel)]
    es = [e0, e1, e2]
    for i, d in enumerate(es):
        if i < len(word):
            if not (0 <= d < CLASSES[word[i]][1]):
                return True
        elif d != 0:
            return True
    rows_, cols_, fl, tcl = VARIANTS[P["variant"]]
    nr_ = len(rows_)
    extra = _mk(word, es)
    rowd = [int(ch) for ch in rows_]
    cold = [int(ch) for ch in cols_]
    csi = ["\x1b", "["] if P["csi"] == "7" else ["\x9b"]
    if tcl is None:
        if t0 != 0:
            return True
        trailing = []
    else:
        if not (0 <= t0 < CLASSES[tcl][1]):
            return True
        trailing = _mk(tcl, [t0])
    stream = extra + csi + [chr(48 + d) for d in rowd] + [";"] + [chr(48 + d) for d in cold] + ["R"] + trailing
    faults = set(fl)
    w = WIN[0]
    inp = ScriptedIn(stream, faults)
    w.in_stream = inp
    got_cb = []
    w.extra_bytes_callback = (lambda b: got_cb.append(b)) if P["cb"] else None
    row = 0
    for d in rowd:
        row = row * 10 + d
    col = 0
    for d in cold:
        col = col * 10 + d
    try:
        res = w.get_cursor_position()
        raised = False
    except ValueError:
        raised = True
    consumed_ok = inp.pos == len(stream) - len(trailing)
    if raised:
        # licensed only when there is no callback and something preceded the report
        return verdict((not P["cb"]) and len(extra) > 0 and consumed_ok, False)
    if not P["cb"] and len(extra) > 0:
        return verdict(False)
    ok = res == (row - 1, col - 1) and consumed_ok
    if len(extra) > 0:
        ok = ok and len(got_cb) == 1 and got_cb[0] == "".join(extra).encode("utf8")
    else:
        ok = ok and len(got_cb) == 0
    return verdict(ok, len(extra) >= 1 and nr_ >= 2)


def diff(top: int, last: int, q0: int, q1: int, q2: int, re0: int, re1: int, re2: int) -> bool:
    """
    pre: top >= 0 and last >= 0 and q0 >= 0 and q1 >= 0 and q2 >= 0
    pre: -P["maxmove"] <= q0 - last <= P["maxmove"] and -P["maxmove"] <= q1 - q0 <= P["maxmove"] and -P["maxmove"] <= q2 - q1 <= P["maxmove"]
    pre: (P["nq"] >= 2 or q1 == q0) and (P["nq"] >= 3 or q2 == q1)
    pre: 0 <= re0 <= 1 and 0 <= re1 <= 1 and 0 <= re2 <= 1
    post: _
    """
    from crosshair.core import realize
    nq = P["nq"]
    rows = [q0, q1, q2][:nq]
    reenter = [realize(re0), realize(re1), realize(re2)][:nq]
    reenter[nq - 1] = 0            # the last query is not interrupted (otherwise the real loop would query again)
    w = WIN[0]
    w.top_usable_row = top
    w._last_cursor_row = None if P["last"] == "none" else last
    w.in_get_cursor_diff = False
    w.another_sigwinch = False
    state = {"k": 0, "nested_ok": True}

    def stub():
        k = state["k"]
        state["k"] = k + 1
        if k >= nq:
            state["nested_ok"] = False
            return (rows[-1], 0)
        if reenter[k]:
            # a SIGWINCH handler calls get_cursor_vertical_diff while the query is in progress
            if w.get_cursor_vertical_diff() != 0:
                state["nested_ok"] = False
        return (rows[k], 0)

    w.get_cursor_position = stub
    try:
        ret = w.get_cursor_vertical_diff()
    finally:
        del w.get_cursor_position
    used = state["k"]
    # queries are repeated exactly while one was interrupted
    expect_used = 1
    for k in range(nq):
        if reenter[k]:
            expect_used = k + 2
        else:
            break
    if used != expect_used or not state["nested_ok"]:
        return verdict(False)
    final_row = rows[used - 1]
    if P["last"] == "none":
        # nothing rendered yet: the first query only records the row; later (re-issued) queries measure from it
        moved = final_row - rows[0]
    else:
        moved = final_row - last
    ok = (w.top_usable_row - top) + ret == moved and w._last_cursor_row == final_row and w.top_usable_row >= 0
    ok = ok and not w.in_get_cursor_diff
    return verdict(ok, moved != 0 and used >= 2)


RD_TEXT = "abcdefghijklmnop"


def _rd_n():
    from chx.harness import c07
    return len(c07.CASES)


def render_diff(s1: int, s2: int, cr: int, k: int) -> bool:
    """
    pre: H.sel_ok(_rd_n(), s1, s2)
    pre: 0 <= cr <= 6 and -2 <= k <= 2
    post: _
    """
    from chx.harness import c07
    h, w, r0 = P["h"], P["w"], P["r0"]
    spec = H.pick(c07.CASES, s1, s2)
    if cr >= max(len(spec), 1):
        return True
    win, rec, inp = c07.ENV["win"], c07.ENV["rec"], c07.ENV["inp"]
    model, _ = c07._initial(h, w, r0, 0)
    rec.model = model
    inp.model = model
    c07.SIZE[0], c07.SIZE[1] = h, w
    win._last_lines_by_row = {}
    win._last_rendered_width = None
    win._last_rendered_height = None
    win._last_cursor_row = None
    win._last_cursor_column = None
    win.in_get_cursor_diff = False
    win.another_sigwinch = False
    win.__enter__()
    rows = c07._mk_rows(spec, RD_TEXT)
    win.render_to_terminal(rows, (cr, 0))
    row_after = model.r
    top_before = win.top_usable_row
    newr = row_after + k
    if not (0 <= newr < h):
        return True
    model.cup(newr, model.c)          # the content, and the cursor with it, moved k rows
    ret = win.get_cursor_vertical_diff()
    ok = (win.top_usable_row - top_before) + ret == k and win._last_cursor_row == newr and win.top_usable_row >= 0
    return verdict(ok, k != 0 and len(spec) >= 2)


def _concrete_render_diff(params, args):
    import os
    import pyte
    import blessed
    import curtsies.window as cw
    from chx.harness import c07
    s1, s2, cr, k = args
    h, w, r0 = params["h"], params["w"], params["r0"]
    spec = H.pick_concrete(c07._b_cases(), s1, s2)
    if cr >= max(len(spec), 1):
        return {"ok": True, "observed": "not a case", "call": "-"}
    scr = pyte.Screen(w, h)
    st = pyte.Stream(scr)
    out = io.StringIO()

    class In:
        encoding = "utf8"

        def __init__(self):
            self.buf = []

        def read(self, n):
            pump()
            return self.buf.pop(0) if self.buf else ""

    inp = In()

    def pump():
        data = out.getvalue()
        out.seek(0)
        out.truncate()
        while "\x1b[6n" in data:
            before, _, data = data.partition("\x1b[6n")
            st.feed(before)
            inp.buf.extend("\x1b[%d;%dR" % (scr.cursor.y + 1, scr.cursor.x + 1))
        st.feed(data)

    size = [h, w]

    class SizedTerminal(blessed.Terminal):
        height = property(lambda self: size[0])
        width = property(lambda self: size[1])

    orig = cw.Cbreak
    cw.Cbreak = c07.NoCbreak
    try:
        win = cw.CursorAwareWindow(out_stream=out, in_stream=inp, keep_last_line=False, hide_cursor=False)
        win.t = SizedTerminal(stream=out, force_styling=True)
        for r in range(r0):
            st.feed("\x1b[%d;1H#" % (r + 1))
        st.feed("\x1b[%d;1H" % (r0 + 1))
        win.__enter__()
        rows = c07._mk_rows(spec, RD_TEXT)
        win.render_to_terminal(rows, (cr, 0))
        pump()
        row_after = scr.cursor.y
        top_before = win.top_usable_row
        newr = row_after + k
        if not (0 <= newr < h):
            return {"ok": True, "observed": "movement leaves the screen: not a case", "call": "-"}
        st.feed("\x1b[%d;%dH" % (newr + 1, scr.cursor.x + 1))
        ret = win.get_cursor_vertical_diff()
        call = "%dx%d terminal, cursor on row %d; enter; render(%r, (%d, 0)); content moves %d rows; get_cursor_vertical_diff()" % (h, w, r0, rows, cr, k)
        ok = (win.top_usable_row - top_before) + ret == k and win._last_cursor_row == newr and win.top_usable_row >= 0
        return {"ok": ok, "observed": "top_usable_row %d -> %d, returned %d, baseline now %r" % (top_before, win.top_usable_row, ret, win._last_cursor_row),
                "expected": "change of top_usable_row + returned value == %d (the cursor was on row %d after the render and is on row %d now)" % (k, row_after, newr),
                "call": call}
    finally:
        cw.Cbreak = orig


# ---------------------------------------------------------------- concrete twin (plain CPython)
def concrete(fn, params, args):
    import os
    os.environ.setdefault("TERM", "xterm-256color")
    from curtsies.window import CursorAwareWindow
    P.clear()
    P.update(params)
    if fn == "render_diff":
        return _concrete_render_diff(params, args)
    w = CursorAwareWindow(out_stream=io.StringIO(), in_stream=io.StringIO(), hide_cursor=False)
    if fn == "parse":
        (sel, e0, e1, e2, t0) = args
        rows_, cols_, fl, tcl = VARIANTS[params["variant"]]
        f0, f1 = (list(fl) + [-1, -1])[:2]
        word = _all_words(params["maxextra"])[params["lo"]:params["hi"]][sel]
        es = [e0, e1, e2]
        for i, d in enumerate(es):
            if i < len(word):
                if not (0 <= d < CLASSES[word[i]][1]):
                    return {"ok": True, "observed": "outside class range", "call": "-"}
            elif d != 0:
                return {"ok": True, "observed": "outside class range", "call": "-"}
        extra = _mk(word, es)
        rowd, cold = [int(ch) for ch in rows_], [int(ch) for ch in cols_]
        csi = ["\x1b", "["] if params["csi"] == "7" else ["\x9b"]
        trailing = [] if tcl is None else _mk(tcl, [t0 if 0 <= t0 < CLASSES[tcl][1] else 0])
        stream = extra + csi + [chr(48 + d) for d in rowd] + [";"] + [chr(48 + d) for d in cold] + ["R"] + trailing
        inp = ScriptedIn(stream, {f0, f1} - {-1})
        w.in_stream = inp
        got = []
        w.extra_bytes_callback = got.append if params["cb"] else None
        row = int("".join(map(str, rowd)))
        col = int("".join(map(str, cold)))
        call = "get_cursor_position() reading %r (callback %s, read failures at %r)" % ("".join(stream), params["cb"], sorted({f0, f1} - {-1}))
        try:
            res = w.get_cursor_position()
        except ValueError as ex:
            ok = (not params["cb"]) and len(extra) > 0 and inp.pos == len(stream) - len(trailing)
            return {"ok": ok, "observed": "ValueError; %d characters consumed" % inp.pos, "expected": "ValueError only without callback and with preceding bytes", "call": call}
        except Exception as ex:
            return {"ok": False, "observed": "raised %r" % (ex,), "expected": repr((row - 1, col - 1)), "call": call}
        ok = res == (row - 1, col - 1) and inp.pos == len(stream) - len(trailing)
        if not params["cb"] and extra:
            ok = False
        if params["cb"]:
            ok = ok and got == ([("".join(extra)).encode("utf8")] if extra else [])
        return {"ok": ok, "observed": "returned %r, callback got %r, consumed %d of %d" % (res, got, inp.pos, len(stream)),
                "expected": "%r, callback [%r], consumed %d" % ((row - 1, col - 1), "".join(extra).encode("utf8"), len(stream) - len(trailing)), "call": call}
    top, last, q0, q1, q2, re0, re1, re2 = args
    nq = params["nq"]
    rows = [q0, q1, q2][:nq]
    reenter = [re0, re1, re2][:nq]
    reenter[nq - 1] = 0
    w.top_usable_row = top
    w._last_cursor_row = None if params["last"] == "none" else last
    state = {"k": 0, "nested": []}

    def stub():
        k = state["k"]
        state["k"] = k + 1
        if k < nq and reenter[k]:
            state["nested"].append(w.get_cursor_vertical_diff())
        return (rows[min(k, nq - 1)], 0)

    w.get_cursor_position = stub
    ret = w.get_cursor_vertical_diff()
    used = state["k"]
    final_row = rows[min(used, nq) - 1]
    moved = final_row - (rows[0] if params["last"] == "none" else last)
    ok = (w.top_usable_row - top) + ret == moved and all(x == 0 for x in state["nested"]) and w._last_cursor_row == final_row
    return {"ok": ok, "observed": "top_usable_row %d -> %d, returned %d, nested calls returned %r" % (top, w.top_usable_row, ret, state["nested"]),
            "expected": "change of top_usable_row + returned value == observed movement %d" % moved,
            "call": "top_usable_row=%d, _last_cursor_row=%r, reported rows %r, re-entered during query %r" % (top, None if params["last"] == "none" else last, rows, reenter)}
