"""C13 - FmtStr values are immutable and their memoised views never go stale.

Real code: every public FmtStr operation named in the property (+, *, slicing, splice, append,
join, split, splitlines, ljust/rjust, copy_with_new_atts, new_with_atts_removed,
copy_with_new_str, width_aware_slice, width_aware_splitlines, delegated str methods, fmtstr()
re-wrapping, copy), the memoised views (_unicode, _len, _s, _width, Chunk.color_str) and
FrozenAttributes / FmtStr.__setitem__.
Symbolic input = a bounded straight-line PROGRAM: the op-code tuple is fixed per instance, every
operand (pool indices, slice bounds, counts) and the observation choice at every program point
(which memoised views of every pool value are read before the next operation) are symbolic ints
that the solver enumerates exhaustively.  Texts are concrete representatives (narrow,
double-width, combining, newline, separator characters).
"""
import itertools

from chx import hsupport as H
from chx.hsupport import P, verdict
from chx.common import disp

PROP = "C13"
FUNCTIONS = ["FmtStr.__add__", "__radd__", "__mul__", "__getitem__", "splice", "append", "join", "split", "splitlines", "ljust",
             "rjust", "copy_with_new_atts", "new_with_atts_removed", "copy_with_new_str", "width_aware_slice",
             "width_aware_splitlines", "__getattr__ (upper)", "fmtstr", "copy", "FmtStr.__str__/__len__/s/width/__repr__",
             "Chunk.color_str", "FrozenAttributes", "FmtStr.__setitem__"]
BOUNDS = ("pool: 4 initial FmtStrs (1-2 runs, one with a formatted empty run next to unformatted text; narrow, double-width, combining, newline and separator characters); programs of "
          "L = 1 (all 24 operations) and L = 2 (quick: 80 op-code pairs chosen by VERIF_SEED, thorough: all 576) and L = 3 "
          "(thorough: 300 seeded triples); per step: operands x, y in the current pool, a <= b in 0..3, observation choice in "
          "{none, str, len+s, width, all+delegated} before every step - all enumerated by the solver")
STUBS = ["texts are concrete representatives (the operations inspect characters through C code: regex, cwcwidth)",
         "real cwcwidth (the C extension is called on concrete characters)"]

OPS = ["add", "add_str", "radd_str", "mul", "slice", "splice", "splice_str", "append", "join", "split", "splitlines", "ljust",
       "rjust_fill", "with_atts", "without_atts", "new_str", "wslice", "wsplit", "upper", "rewrap", "copy", "ljust_short", "rjust_short", "iadd"]
OBS = 5
CASES = []


def _initial_pool():
    from curtsies.formatstring import FmtStr, Chunk
    return [FmtStr(Chunk("ab", {"fg": 31}), Chunk("Ｅ,c", {"bold": True})),
            FmtStr(Chunk("x\ny", {"bg": 44})),
            FmtStr(Chunk("á", {"fg": 32, "underline": True}), Chunk("", {"fg": 32})),
            FmtStr(Chunk("", {"fg": 31}), Chunk("a b"))]          # a formatted empty run next to unformatted text


def instances(tier, seed):
    import random
    out = []
    T = 200 if tier == "quick" else 900
    for i, op in enumerate(OPS):
        out.append({"name": "L1-%s" % op, "fn": "program", "timeout": T, "cost": 2, "params": {"ops": [i]}})
    pairs = list(itertools.product(range(len(OPS)), repeat=2))
    rnd = random.Random(seed)
    if tier == "quick":
        must = [(OPS.index(a), OPS.index(b)) for a, b in (("join", "add"), ("with_atts", "add"), ("slice", "upper"), ("add_str", "wslice"),
                                                          ("splice", "slice"), ("wslice", "wslice"), ("split", "ljust"), ("copy", "splice"))]
        rest = [p for p in pairs if p not in must]
        rnd.shuffle(rest)
        pairs = must + rest[:72]
    for (i, j) in pairs:
        out.append({"name": "L2-%s-%s" % (OPS[i], OPS[j]), "fn": "program", "timeout": T, "cost": 6, "params": {"ops": [i, j], "light": True}})
    if tier != "quick":
        triples = list(itertools.product(range(len(OPS)), repeat=3))
        rnd.shuffle(triples)
        for t in triples[:300]:
            out.append({"name": "L3-%s-%s-%s" % tuple(OPS[k] for k in t), "fn": "program", "timeout": T, "cost": 9, "params": {"ops": list(t), "light": True}})
    out.append({"name": "inplace", "fn": "inplace", "timeout": T, "params": {}})
    return out


def witness_instances(fn, lst, tier):
    return [i for i in lst if i["params"].get("ops") == [OPS.index("splice")]][:1] or lst[:1]


def _step_cases(light):
    """operand tuples (x, y, a, b, obs) of one step"""
    out = []
    for x in range(4):
        for y in range(2):
            for (a, b) in ((0, 1), (1, 3), (2, 2), (0, 3), (1, 2), (0, 0)) if not light else ((1, 2),):
                for obs in range(OBS) if not light else (0, 1, 3, 4):
                    out.append((x, y, a, b, obs))
    return out


def setup(params):
    if "ops" in params:
        CASES[:] = _step_cases(params.get("light", False))


def _observe(pool, obs):
    if obs == 0:
        return
    for p in pool:
        if obs in (1, 4):
            str(p)
        if obs in (2, 4):
            len(p)
            p.s
        if obs in (3, 4):
            try:
                p.width
            except ValueError:
                pass
        if obs == 4:
            p.upper()          # delegated method: uses shared_atts
            repr(p)


def _apply(op, pool, x, y, a, b):
    from curtsies.formatstring import fmtstr, FmtStr
    X = pool[x % len(pool)]
    Y = pool[(x + 1 + y) % len(pool)]
    if op == "add":
        return [X + Y]
    if op == "add_str":
        return [X + "Ｅz"]
    if op == "radd_str":
        return ["qＥ" + X]
    if op == "mul":
        return [X * (a % 3)]
    if op == "slice":
        return [X[a:b], X[a:]]
    if op == "splice":
        return [X.splice(Y, a, b)]
    if op == "splice_str":
        return [X.splice("Ｅk", a)]
    if op == "append":
        return [X.append(Y)]
    if op == "join":
        return [X.join([Y, "m", X])]
    if op == "split":
        return X.split(",")[:2]
    if op == "splitlines":
        return X.splitlines(bool(a % 2))[:2]
    if op == "ljust":
        return [X.ljust(len(X) + b)]
    if op == "rjust_fill":
        return [X.rjust(len(X) + b, "*")]
    if op == "with_atts":
        return [X.copy_with_new_atts(bold=bool(a % 2), fg=33)]
    if op == "without_atts":
        return [X.new_with_atts_removed("fg", "bold")]
    if op == "new_str":
        return [X.copy_with_new_str("Ｅzz")]
    if op == "wslice":
        try:
            return [X.width_aware_slice(slice(a, b + 1))]
        except ValueError:
            return []
    if op == "wsplit":
        try:
            return list(X.width_aware_splitlines(2 + a % 2))[:2]
        except (ValueError, IndexError):
            return []
    if op == "upper":
        return [X.upper()]
    if op == "rewrap":
        return [fmtstr(X, "underline")]
    if op == "copy":
        return [X.copy()]
    if op == "iadd":
        Z = X
        Z += Y                  # augmented assignment must build a new value, not edit the one X still names
        return [Z]
    if op == "ljust_short":
        return [X.ljust(max(0, len(X) - 1 - a % 2))]        # narrower than the text: nothing to pad
    if op == "rjust_short":
        return [X.rjust(max(0, len(X) - 1 - a % 2))]
    raise KeyError(op)


def _structure(p):
    return tuple((c.s, tuple(sorted(dict(c.atts).items()))) for c in p.chunks)


def _fresh(struct):
    from curtsies.formatstring import FmtStr, Chunk
    return FmtStr(*[Chunk(s, dict(a)) for s, a in struct])


def _views(p):
    try:
        w = p.width
    except ValueError:
        w = "ValueError"
    sh = tuple(sorted(p.shared_atts.items())) if p.chunks else None      # derived view used by the delegated methods
    return (p.s, len(p), w, str(p), repr(p), tuple((c, tuple(sorted(disp(ch.atts).items()))) for ch in p.chunks for c in ch.s), sh)


def _views_isolated(st):
    """(s, len, width, str), each computed FIRST on its own fresh value (no other view filled in before)"""
    try:
        w = _fresh(st).width
    except ValueError:
        w = "ValueError"
    return (_fresh(st).s, len(_fresh(st)), w, str(_fresh(st)))


def run_program(ops, operands):
    """returns None when everything is coherent, else a description"""
    pool = _initial_pool()
    born = [_structure(p) for p in pool]
    for op_i, (x, y, a, b, obs) in zip(ops, operands):
        _observe(pool, obs)
        new = _apply(OPS[op_i], pool, x, y, a, b)
        for r in new:
            pool.append(r)
            born.append(_structure(r))
    for idx, (p, st) in enumerate(zip(pool, born)):
        now = _structure(p)
        if now != st:
            return "value %d changed its runs: %r -> %r" % (idx, st, now)
        v = _views(p)
        f = _views(_fresh(st))
        if v != f:
            return "value %d: memoised views %r differ from freshly computed %r" % (idx, v, f)
        iso = _views_isolated(st)
        if v[:4] != iso:
            return "value %d: views %r differ from views computed one at a time on fresh values %r" % (idx, v[:4], iso)
        if _views(p) != v:
            return "value %d: views not stable" % idx
    return None


def program(s1a: int, s1b: int, s2a: int, s2b: int, s3a: int, s3b: int) -> bool:
    """
    pre: H.sel_ok(len(CASES), s1a, s1b)
    pre: (len(P["ops"]) >= 2 and H.sel_ok(len(CASES), s2a, s2b)) or (len(P["ops"]) < 2 and s2a == 0 and s2b == 0)
    pre: (len(P["ops"]) >= 3 and H.sel_ok(len(CASES), s3a, s3b)) or (len(P["ops"]) < 3 and s3a == 0 and s3b == 0)
    post: _
    """
    ops = P["ops"]
    sels = [(s1a, s1b), (s2a, s2b), (s3a, s3b)][:len(ops)]
    operands = [H.pick(CASES, u, v) for (u, v) in sels]
    # every operand is realised now: the program runs on concrete values, so the real code is executed without the
    # tracer (plain CPython speed) - the solver's job here is the exhaustive enumeration of the operand space
    from crosshair.tracers import NoTracing
    with NoTracing():
        try:
            res = run_program(ops, operands)
        except Exception:      # noqa - an operation raising on these operands is judged by the property of that operation
            return verdict(True, False)
    return verdict(res is None, operands[0][4] != 0)


MUTATORS = ["setitem", "atts_setitem", "atts_update", "atts_pop", "atts_clear", "atts_setdefault", "atts_delitem", "atts_popitem", "atts_ior"]


def _mutate(kind, f):
    ch = f.chunks[0]
    if kind == "setitem":
        f[0] = "z"
    elif kind == "atts_setitem":
        ch.atts["fg"] = 32
    elif kind == "atts_update":
        ch.atts.update({"fg": 32})
    elif kind == "atts_pop":
        ch.atts.pop("fg")
    elif kind == "atts_clear":
        ch.atts.clear()
    elif kind == "atts_setdefault":
        ch.atts.setdefault("bold", True)
    elif kind == "atts_delitem":
        del ch.atts["fg"]
    elif kind == "atts_popitem":
        ch.atts.popitem()
    elif kind == "atts_ior":
        a = ch.atts
        a |= {"bold": True}


def inplace(k: int, obs: int) -> bool:
    """
    pre: 0 <= k < len(MUTATORS) and 0 <= obs < 5
    post: _
    """
    from crosshair.core import realize
    from crosshair.tracers import NoTracing
    kind = MUTATORS[realize(k)]
    o = realize(obs)
    with NoTracing():
        pool = _initial_pool()
        _observe(pool, o)
        f = pool[0]
        before = _structure(f)
        try:
            _mutate(kind, f)
            raised = False
        except Exception:      # noqa
            raised = True
        # in-place edits must raise; whatever happened, the value must not have changed
        ok = raised and _structure(f) == before and _views(f) == _views(_fresh(before))
    return verdict(ok, True)


# ---------------------------------------------------------------- concrete twin (plain CPython)
def concrete(fn, params, args):
    P.clear()
    P.update(params)
    if fn == "inplace":
        kind = MUTATORS[args[0]]
        pool = _initial_pool()
        _observe(pool, args[1])
        f = pool[0]
        before = _structure(f)
        try:
            _mutate(kind, f)
            raised = None
        except Exception as ex:
            raised = ex
        ok = raised is not None and _structure(f) == before
        return {"ok": ok, "observed": "raised %r; runs now %r" % (raised, _structure(f)), "expected": "an exception and an unchanged value",
                "call": "%s on %r" % (kind, _fresh(before))}
    ops = params["ops"]
    cases = _step_cases(params.get("light", False))
    sels = [(args[0], args[1]), (args[2], args[3]), (args[4], args[5])][:len(ops)]
    operands = [H.pick_concrete(cases, u, v) for (u, v) in sels]
    try:
        res = run_program(ops, operands)
    except Exception as ex:
        import traceback
        tb = traceback.extract_tb(ex.__traceback__)
        if "/curtsies/" in tb[-1].filename:
            # an operation raising on these operands is not C13's subject (other properties judge results)
            return {"ok": True, "observed": "operation raised %r" % (ex,), "call": "-"}
        raise
    return {"ok": res is None, "observed": res, "expected": "every pool value keeps its runs; memoised views == freshly computed",
            "call": "program %r with (x, y, a, b, observe) = %r on pool %r" % ([OPS[i] for i in ops], operands, _initial_pool())}
