"""C02 - FullscreenWindow: after every render the screen equals the array.

Real code: FullscreenWindow.render_to_terminal, BaseWindow.on_terminal_size_change / write,
FmtStr.__eq__ / __str__ / __len__ / __getitem__, the real blessed capability strings.
Inductive step instead of histories: from an ARBITRARY junk screen (fresh window) render(A)
must show A (lemma B); from the state render(A) left - optionally followed by a resize to a
different size that leaves arbitrary junk - render(B) must show B (lemma S).  B + S cover
render / resize histories of any length.
Symbolic: every character of A's and B's rows and every junk cell (any printable ASCII), the
cursor target, hide_cursor; the discrete shape (terminal sizes, heights, row lengths and run
layouts) is enumerated by the solver through selectors.
"""
import io
import itertools
import os

from chx import hsupport as H
from chx.hsupport import P, verdict
from chx.domains.termmodel import TermModel, Recorder, Tagged, BLANK, att_key

PROP = "C02"
FUNCTIONS = ["FullscreenWindow.render_to_terminal", "BaseWindow.on_terminal_size_change", "BaseWindow.write", "BaseWindow.height/width",
             "FmtStr.__eq__", "FmtStr.__str__", "FmtStr.__len__", "FmtStr.__getitem__", "FSArray.__getitem__/__len__",
             "blessed.Terminal.move/clear_eol/clear_bol/hide_cursor/normal_cursor (real capability strings)"]
BOUNDS = ("terminal sizes (1,2), (2,2) quick; + (2,3), (3,3) thorough; optional resize to a different size in {(1,2),(2,2),(2,3),(3,2)}; "
          "arrays of height 0..h+1, rows of length 0..w+1 given as str / 1-run / 2-run FmtStr (both formatted, or formatted then plain), as list or FSArray; first array from "
          "a reduced set, second array: quick every array of at most one row, every two-row array of plain rows of length 0 / w / w+1 (all ordered pairs of adjacent shapes) plus a seeded sample of the others, thorough a seeded sample of 150 per instance; every row character and every "
          "junk cell symbolic (any character: neither the window nor the model inspects them), cursor target any on-screen cell, hide_cursor both")
STUBS = ["terminal model (xterm pending-wrap semantics) as output device; rows are handed over as FmtStr through the public "
         "fmtstr_to_stdout_xform() extension point (assumes C01: str(f) displays f's cells)", "window.t.height/width come "
         "from the shape (a blessed.Terminal subclass; all capability strings are the real ones)",
         "logger.debug format strings returned unformatted (engine patch)"]

SIZE = [2, 2]
ENV = {}
CASES = []
ROW_ATT = [{"fg": 31}, {"bold": True}]


def _row_options(w):
    opts = [(0, "s"), (1, "f"), (1, "s"), (w, "s"), (w, "g" if w >= 2 else "f"), (w + 1, "s"), (w + 1, "f")]
    if w >= 2:
        opts.append((w, "h"))            # a formatted run followed by an unformatted one
    if w >= 3:
        opts.append((w - 1, "g"))
    out = []
    for o in opts:
        if o not in out:
            out.append(o)
    return out


def _arrays(h, w, reduced):
    opts = _row_options(w)
    out = [()]
    for n in range(1, h + 2):
        for rows in itertools.product(opts, repeat=n):
            out.append(rows)
    if reduced:
        keep = [()]
        keep.append(((w, "s"),) * h)                      # full screen
        keep.append(((w, "g" if w >= 2 else "f"),) * h)   # full screen, formatted
        keep.append(((1, "f"),))
        keep.append(((w + 1, "s"),) * min(h, 2))          # too wide
        keep.append(((1, "s"),) * (h + 1))                # too tall
        keep.append(((0, "s"), (w, "s"))[:h + 1])
        out2 = []
        for k in keep:
            if k not in out2:
                out2.append(k)
        return out2
    return out


def instances(tier, seed):
    out = []
    T = 200 if tier == "quick" else 600
    sizes = [(1, 2), (2, 2)] if tier == "quick" else [(1, 2), (2, 2), (2, 3), (3, 3)]
    for (h, w) in sizes:
        nA = len(_arrays(h, w, True))
        for ai in range(nA):
            for resize in (None, (2, 3) if (h, w) != (2, 3) else (3, 2), (1, 2) if (h, w) != (1, 2) else (2, 2)):
                if tier == "quick" and resize == ((1, 2) if (h, w) != (1, 2) else (2, 2)) and ai % 2:
                    continue
                for wrap in ("list", "fsarray"):
                    if wrap == "fsarray" and (tier == "quick" and ai % 3):
                        continue
                    hides = (None,) if tier == "quick" else (False, True)
                    for hd in hides:
                        hide = bool((ai + (2 if resize else 0) + (1 if wrap == "fsarray" else 0)) % 2) if hd is None else hd
                        out.append({"name": "render-%dx%d-A%d-%s-%s%s" % (h, w, ai, "same" if resize is None else "to%dx%d" % resize, wrap,
                                                                          "" if hd is None else ("-hide" if hd else "-show")),
                                    "fn": "render2", "timeout": T, "cost": h * w,
                                    "params": {"h": h, "w": w, "A": ai, "resize": resize, "wrap": wrap, "seed": seed,
                                               "jpos": [(ai + (1 if resize else 0)) % h, (ai // 2) % w],     # where the junk left the cursor
                                               "hide": hide, "limit": 10 if tier == "quick" else 150}})
    if tier != "quick":
        # thorough = the quick instances + the deeper ones (larger terminals, both cursor modes, 150 second arrays each)
        out = instances("quick", seed) + out
    return out


def witness_instances(fn, lst, tier):
    return [i for i in lst if i["params"]["A"] == 1 and i["params"]["resize"] is None][:1]


def _b_cases():
    h, w = P["h"], P["w"]
    if P["resize"]:
        h, w = P["resize"]
    cases = _arrays(h, w, False)
    lim = P.get("limit")
    if lim and len(cases) > lim:
        k = -(-len(cases) // lim)
        # every array of at most one row, every ordered pair of plain empty / full-width / too-wide rows, plus a seeded sample of the rest
        plain = lambda c: all(kind == "s" and ln != 1 for ln, kind in c)      # noqa  rows '', full width, too wide
        must = [c for c in cases if len(c) <= 1 or (len(c) == 2 and plain(c))]
        rest = [c for c in cases if c not in must]
        cases = must + rest[(P.get("seed", 0) % k)::k]
    return cases


def setup(params):
    os.environ.setdefault("TERM", "xterm-256color")
    import blessed
    from curtsies.window import FullscreenWindow

    from chx.domains.termmodel import sized_terminal
    rec = Recorder()
    win = FullscreenWindow(out_stream=rec, hide_cursor=True)
    win.t = sized_terminal(rec, SIZE)
    ENV["specA"] = _arrays(params["h"], params["w"], True)[params["A"]]
    win.fmtstr_to_stdout_xform = lambda: (lambda line: Tagged(line))
    ENV["rec"] = rec
    ENV["win"] = win
    CASES[:] = _b_cases()


def _mk_rows(spec, chars, wrap, width):
    """rows of an array from its shape: consumes characters from `chars` (a str, symbolic or concrete)"""
    from curtsies.formatstring import FmtStr, Chunk
    from curtsies.formatstringarray import FSArray
    rows = []
    pos = 0
    for (ln, kind) in spec:
        t = chars[pos:pos + ln]
        pos += ln
        if kind == "s":
            rows.append(t if wrap == "list" else FmtStr(Chunk(t)))
        elif kind == "f":
            rows.append(FmtStr(Chunk(t, ROW_ATT[0])))
        elif kind == "h":
            rows.append(FmtStr(Chunk(t[:1], ROW_ATT[0]), Chunk(t[1:])))
        else:
            rows.append(FmtStr(Chunk(t[:1], ROW_ATT[0]), Chunk(t[1:], ROW_ATT[1])))
    if wrap == "fsarray":
        arr = FSArray(0, max([width] + [len(r) for r in rows]))
        arr.rows = rows
        return arr, rows
    return rows, rows


def _expected(rows, h, w):
    grid = []
    for r in range(h):
        line = []
        cs = Tagged(rows[r]).cells() if r < len(rows) else []
        for c in range(w):
            line.append(cs[c] if c < len(cs) else BLANK)
        grid.append(line)
    return grid


def _grid_eq(model, want):
    for r in range(model.h):
        for c in range(model.w):
            g, e = model.grid[r][c], want[r][c]
            if g[1] != e[1] or g[0] != e[0]:
                return False
    return True


def _junk_grid(h, w, junk):
    cells = []
    k = 0
    for r in range(h):
        row = []
        for c in range(w):
            row.append((junk[k], (("fg", 35),) if (r + c) % 2 else ()))
            k += 1
        cells.append(row)
    return cells


def _sanitize(strs):
    """the characters are never inspected by the window code or the model, so the symbolic run leaves them
    unconstrained; for the replay on pyte every non-printable character of the counterexample is replaced by
    a distinct printable one (equalities between characters are preserved)"""
    used = {c for t in strs for c in t if 0x21 <= ord(c) <= 0x7e}
    spare = [chr(o) for o in range(0x41, 0x7b) if chr(o) not in used] + [chr(o) for o in range(0xc0, 0x180)]
    mp = {}
    out = []
    for t in strs:
        r = ""
        for c in t:
            if not (0x20 <= ord(c) <= 0x7e):
                if c not in mp:
                    mp[c] = spare.pop(0)
                c = mp[c]
            r += c
        out.append(r)
    return out


def render2(ta: str, tb: str, junk: str, junk2: str, s1: int, s2: int, cr: int, cc: int) -> bool:
    """
    pre: len(ta) == 8 and len(tb) == 12 and len(junk) == 9 and len(junk2) == 9
    pre: H.sel_ok(len(CASES), s1, s2)
    pre: 0 <= cr <= 2 and 0 <= cc <= 2
    post: _
    """
    jr, jc = P["jpos"]
    hide = P["hide"]
    h, w = P["h"], P["w"]
    specA = ENV["specA"]
    specB = H.pick(CASES, s1, s2)
    h2, w2 = P["resize"] if P["resize"] else (h, w)
    if not (cr < h2 and cc < w2 and jr < h and jc < w):
        return True
    win, rec = ENV["win"], ENV["rec"]
    win._last_lines_by_row = {}
    win._last_rendered_width = None
    win._last_rendered_height = None
    win.hide_cursor = hide
    # ---- lemma B: arbitrary junk, fresh window
    model = TermModel(h, w, _junk_grid(h, w, junk))
    model.cup(jr, jc)
    model.cursor_visible = not hide
    rec.model = model
    SIZE[0], SIZE[1] = h, w
    arrA, rowsA = _mk_rows(specA, ta, P["wrap"], w)
    win.render_to_terminal(arrA, (0, 0))
    if model.scrolls or not _grid_eq(model, _expected(rowsA, h, w)) or (model.r, model.c) != (0, 0):
        return verdict(False)
    # ---- lemma S: the state render(A) left, optionally a resize that leaves junk
    if P["resize"]:
        model = TermModel(h2, w2, _junk_grid(h2, w2, junk2))
        model.cup(min(jr, h2 - 1), min(jc, w2 - 1))
        model.cursor_visible = not hide
        rec.model = model
        SIZE[0], SIZE[1] = h2, w2
    arrB, rowsB = _mk_rows(specB, tb, P["wrap"], w2)
    win.render_to_terminal(arrB, (cr, cc))
    ok = (not model.scrolls) and _grid_eq(model, _expected(rowsB, h2, w2)) and (model.r, model.c) == (cr, cc)
    ok = ok and model.cursor_visible == (not hide) and not model.unknown
    if not ok:
        return verdict(False)
    # ---- a third render, of the empty array: whatever the row cache believes, the screen must end up blank
    # (exposes cache entries that no longer describe the screen)
    win.render_to_terminal([], (0, 0))
    ok = (not model.scrolls) and _grid_eq(model, _expected([], h2, w2)) and (model.r, model.c) == (0, 0)
    return verdict(ok, len(specB) >= 1 and len(specA) >= 1)


# ---------------------------------------------------------------- concrete twin (plain CPython, real strings, pyte)
_PYTE_COL = {31: "red", 35: "magenta"}


def _pyte_expected(rows, h, w):
    want = []
    for r in range(h):
        cs = Tagged(rows[r]).cells() if r < len(rows) else []
        line = []
        for c in range(w):
            ch, a = cs[c] if c < len(cs) else BLANK
            d = dict(a)
            line.append((ch, _PYTE_COL.get(d.get("fg"), "default"), bool(d.get("bold"))))
        want.append(line)
    return want


def _pyte_grid(screen, h, w):
    return [[(screen.buffer[r][c].data, screen.buffer[r][c].fg, screen.buffer[r][c].bold) for c in range(w)] for r in range(h)]


def concrete(fn, params, args):
    import pyte
    import blessed
    from curtsies.window import FullscreenWindow
    os.environ.setdefault("TERM", "xterm-256color")
    P.clear()
    P.update(params)
    ta, tb, junk, junk2, s1, s2, cr, cc = args
    hide = params["hide"]
    jr, jc = params["jpos"]
    ta, tb, junk, junk2 = _sanitize([ta, tb, junk, junk2])
    h, w = params["h"], params["w"]
    specA = _arrays(h, w, True)[params["A"]]
    specB = H.pick_concrete(_b_cases(), s1, s2)
    h2, w2 = params["resize"] if params["resize"] else (h, w)
    if not (cr < h2 and cc < w2 and jr < h and jc < w):
        return {"ok": True, "observed": "cursor outside the screen: not a case", "call": "-"}
    size = [h, w]

    class SizedTerminal(blessed.Terminal):
        height = property(lambda self: size[0])
        width = property(lambda self: size[1])

    out = io.StringIO()
    win = FullscreenWindow(out_stream=out, hide_cursor=hide)
    win.t = SizedTerminal(stream=out, force_styling=True)

    def screen_with_junk(hh, ww, jk, r0, c0):
        scr = pyte.Screen(ww, hh)
        st = pyte.Stream(scr)
        k = 0
        for r in range(hh):
            for c in range(ww):
                st.feed("\x1b[%d;%dH" % (r + 1, c + 1) + ("\x1b[35m" if (r + c) % 2 else "\x1b[m") + jk[k])
                k += 1
        st.feed("\x1b[m\x1b[%d;%dH" % (r0 + 1, c0 + 1))
        if hide:
            st.feed("\x1b[?25l")
        return scr, st

    scr, st = screen_with_junk(h, w, junk, jr, jc)
    arrA, rowsA = _mk_rows(specA, ta, params["wrap"], w)
    win.render_to_terminal(arrA, (0, 0))
    st.feed(out.getvalue())
    call = "%dx%d terminal with junk; render(%r, (0, 0))" % (h, w, rowsA)
    top_line_moved = scr.history.top if hasattr(scr, "history") else None
    if _pyte_grid(scr, h, w) != _pyte_expected(rowsA, h, w) or (scr.cursor.y, scr.cursor.x) != (0, 0):
        return {"ok": False, "observed": "screen %r cursor %r" % (scr.display, (scr.cursor.y, scr.cursor.x)),
                "expected": "screen %r cursor (0, 0)" % (["".join(c for c, _, _ in line) for line in _pyte_expected(rowsA, h, w)],), "call": call}
    out.seek(0)
    out.truncate()
    if params["resize"]:
        size[0], size[1] = h2, w2
        scr, st = screen_with_junk(h2, w2, junk2, min(jr, h2 - 1), min(jc, w2 - 1))
        call += "; resize to %dx%d leaving junk" % (h2, w2)
    arrB, rowsB = _mk_rows(specB, tb, params["wrap"], w2)
    win.render_to_terminal(arrB, (cr, cc))
    st.feed(out.getvalue())
    call += "; render(%r, (%d, %d))" % (rowsB, cr, cc)
    ok = _pyte_grid(scr, h2, w2) == _pyte_expected(rowsB, h2, w2) and (scr.cursor.y, scr.cursor.x) == (cr, cc) and scr.cursor.hidden == hide
    if ok:
        out.seek(0)
        out.truncate()
        win.render_to_terminal([], (0, 0))
        st.feed(out.getvalue())
        call += "; render([], (0, 0))"
        ok3 = _pyte_grid(scr, h2, w2) == _pyte_expected([], h2, w2) and (scr.cursor.y, scr.cursor.x) == (0, 0)
        if not ok3:
            return {"ok": False, "observed": "screen %r cursor %r" % (scr.display, (scr.cursor.y, scr.cursor.x)),
                    "expected": "a blank screen, cursor (0, 0)", "call": call}
    return {"ok": ok, "observed": "screen %r cursor %r hidden %r" % (scr.display, (scr.cursor.y, scr.cursor.x), scr.cursor.hidden),
            "expected": "screen %r cursor %r hidden %r" % (["".join(c for c, _, _ in line) for line in _pyte_expected(rowsB, h2, w2)], (cr, cc), hide), "call": call}
