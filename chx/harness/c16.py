"""C16 - linesplit word-wraps without losing, reordering or restyling words.

Real code: linesplit, FmtStr.__getitem__, normalize_slice, shared_atts, fmtstr, FmtStr.__add__.
Symbolic: 1..3 runs whose texts are native CrossHair strings (every character symbolic over
{a, b, space, tab, newline, U+00A0, U+3000}), so run boundaries fall inside words and inside
whitespace; `columns` is fixed per instance.
Oracle: greedy first-fit reference wrap computed on character INDICES of the input.
"""
from chx import hsupport as H
from chx.hsupport import P, verdict
from chx.common import disp, cells, fmt_cells

PROP = "C16"
FUNCTIONS = ["linesplit", "FmtStr.__getitem__", "normalize_slice", "FmtStr.shared_atts", "fmtstr", "FmtStr.__add__", "FmtStr.s"]
BOUNDS = ("input: plain str or FmtStr of 1..3 runs, total length <= 4 (quick) / 6 (thorough), every character symbolic over "
          "{a, b, ' ', tab, newline, U+00A0, U+3000}; columns 1..4 (one instance each)")
STUBS = ["CrossHair's regex model for \\s+ on a symbolic str (violations are replayed with CPython's re)",
         "greedy reference wrap on character indices"]

ALPHA = "ab \t\n 　"
WS = " \t\n 　"
ATTS = [{"fg": 31}, {"bold": True}, {"bg": 44, "fg": 31}]
ATTS_NAMES = [{"fg": 31}, {"fg": 32}, {"fg": 31}]          # same attribute names, different values


def instances(tier, seed):
    out = []
    T = 150 if tier == "quick" else 900
    Ls = {1: 4, 2: 4, 3: 3} if tier == "quick" else {1: 6, 2: 6, 3: 5}
    for K in (0, 1, 2, 3):
        for cols in (1, 2, 3, 4):
            if tier == "quick" and K == 3 and cols in (1, 4):
                continue
            L = Ls.get(K, 4)
            # split by the length of the first run (parallelism)
            firsts = list(range(0, L + 1)) if K >= 1 else [None]
            if K == 0:
                firsts = list(range(0, (4 if tier == "quick" else 6) + 1))
            for n0 in firsts:
                out.append({"name": "wrap-K%d-c%d-n%d" % (K, cols, n0), "fn": "wrap", "timeout": T, "cost": 3 if (n0 or 0) >= 2 else 1,
                            "params": {"K": K, "cols": cols, "L": L if K else (4 if tier == "quick" else 6), "n0": n0}})
    # two / three runs whose formatting has the same attribute names but different values (whitespace in each of them)
    for K in (2, 3):
        for cols in (3, 4):
            for n0 in range(0, 3):
                out.append({"name": "names-K%d-c%d-n%d" % (K, cols, n0), "fn": "wrap", "timeout": T, "cost": 3,
                            "params": {"K": K, "cols": cols, "L": 4 if tier == "quick" else 5, "n0": n0, "layout": "names", "alpha": "a "}})
    out += [dict(i, name=i["name"] + "-warm", params=dict(i["params"], warm=True)) for i in out
            if i["params"]["K"] in (2, 3) and (tier != "quick" or i["params"]["cols"] == 3)]
    # longer plain strings over {a, space}: over-long words that are not the first word, followed by short ones
    for n0 in ((7, 8) if tier == "quick" else (7, 8, 9, 10)):
        for cols in ((3,) if tier == "quick" else (2, 3, 4)):
            for first in ("a", " "):
                out.append({"name": "long-c%d-n%d-%s" % (cols, n0, "w" if first == "a" else "s"), "fn": "wrap", "timeout": T, "cost": 10,
                            "params": {"K": 0, "cols": cols, "L": n0, "n0": n0, "alpha": "a ", "first": first}})
    return out


def witness_instances(fn, lst, tier):
    pick = [i for i in lst if i["params"]["K"] == 2 and i["params"]["cols"] == 3 and i["params"]["n0"] == 2]
    return pick[:1]


def _pre(t0, t1, t2):
    K, L, n0 = P["K"], P["L"], P["n0"]
    if len(t0) != n0:
        return False
    if K <= 1 and (len(t1) or len(t2)):
        return False
    if K == 2 and len(t2):
        return False
    if len(t0) + len(t1) + len(t2) > L:
        return False
    if "first" in P and t0[0] != P["first"]:
        return False
    return all(c in P.get("alpha", ALPHA) for c in t0 + t1 + t2)


def _build(t0, t1, t2):
    from curtsies.formatstring import FmtStr, Chunk
    K = P["K"]
    if K == 0:
        return t0      # plain str input
    f = FmtStr(*[Chunk(t, a) for t, a in zip([t0, t1, t2][:K], _atts())])
    if P.get("warm"):
        # history: the value was displayed, measured and used by the str-like helpers before it is wrapped
        H.warm(f)
        f.shared_atts
        f.ljust(0)
    return f


def _atts():
    return ATTS_NAMES if P.get("layout") == "names" else ATTS


def reference(chars, attl, cols):
    """greedy first-fit wrap.  chars: list of characters, attl: per-character displayed attributes.
    returns list of lines; a line is a list of items: ('c', i) = input character i, ('sp', lo, hi) = one space standing
    for the whitespace run chars[lo:hi]"""
    n = len(chars)
    words = []
    gaps = []      # gaps[k] = (lo, hi) whitespace run between word k and word k+1
    i = 0
    while i < n:
        if chars[i] in WS:
            j = i
            while j < n and chars[j] in WS:
                j += 1
            if words:
                gaps.append((i, j))
            i = j
        else:
            j = i
            while j < n and chars[j] not in WS:
                j += 1
            words.append((i, j))
            i = j
    if len(gaps) == len(words) and gaps:
        gaps.pop()          # trailing whitespace
    lines = []
    for k, (lo, hi) in enumerate(words):
        ln = hi - lo
        if lines and len(lines[-1]) + 1 + ln <= cols:
            lines[-1].append(("sp",) + gaps[k - 1])
            lines[-1].extend(("c", x) for x in range(lo, hi))
        else:
            for s in range(lo, hi, cols):
                lines.append([("c", x) for x in range(s, min(s + cols, hi))])
    return lines


def _check(lines, chars, attl, cols):
    want = reference(chars, attl, cols)
    if len(lines) != len(want):
        return False
    for got, wl in zip(lines, want):
        if len(got) != len(wl) or len(got) > cols:
            return False
        for (gc, ga), item in zip(got, wl):
            if item[0] == "c":
                if ga != attl[item[1]] or gc != chars[item[1]]:
                    return False
            else:
                if gc != " ":
                    return False
                run = attl[item[1]:item[2]]
                union = {}
                for d in run:
                    union.update(d)
                # never an attribute none of the replaced whitespace had; every attribute all of it shares
                for k, v in ga.items():
                    if not any(d.get(k) == v for d in run):
                        return False
                for k, v in run[0].items():
                    if all(d.get(k) == v for d in run) and ga.get(k) != v:
                        return False
    return True


def wrap(t0: str, t1: str, t2: str) -> bool:
    """
    pre: _pre(t0, t1, t2)
    post: _
    """
    from curtsies.formatstring import linesplit
    cols = P["cols"]
    x = _build(t0, t1, t2)
    K = P["K"]
    texts = [t0, t1, t2][:max(K, 1)]
    chars = []
    attl = []
    for idx, t in enumerate(texts):
        for c in t:
            chars.append(c)
            attl.append(disp(_atts()[idx]) if K else {})
    lines = linesplit(x, cols)
    got = [[(c, disp(ch.atts)) for ch in ln.chunks for c in ch.s] for ln in lines]
    got = [g for g in got]
    if not chars or all(c in WS for c in chars):
        # no words: nothing to show (an empty list or empty lines are both fine)
        return verdict(all(len(g) == 0 for g in got), False)
    return verdict(_check(got, chars, attl, cols), len(got) >= 2)


# ---------------------------------------------------------------- concrete twin (plain CPython)
def concrete(fn, params, args):
    from curtsies.formatstring import linesplit
    P.clear()
    P.update(params)
    t0, t1, t2 = args
    cols = params["cols"]
    K = params["K"]
    x = _build(t0, t1, t2)
    texts = [t0, t1, t2][:max(K, 1)]
    chars, attl = [], []
    for idx, t in enumerate(texts):
        for c in t:
            chars.append(c)
            attl.append(disp(_atts()[idx]) if K else {})
    call = "linesplit(%r, %d)" % (x, cols)
    try:
        lines = linesplit(x, cols)
    except Exception as ex:
        return {"ok": False, "observed": "raised %r" % (ex,), "expected": "a list of lines", "call": call}
    got = [cells(ln) for ln in lines]
    want = reference(chars, attl, cols)
    if not chars or all(c in WS for c in chars):
        return {"ok": all(len(g) == 0 for g in got), "observed": repr(lines), "expected": "no text", "call": call}
    return {"ok": _check(got, chars, attl, cols), "observed": [fmt_cells(g) for g in got],
            "expected": [" ".join(("<sp>" if it[0] == "sp" else repr(chars[it[1]])[1:-1]) for it in ln) for ln in want], "call": call}
