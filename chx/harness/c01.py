"""C01 - str(FmtStr) displays exactly its characters and formatting, then resets.

Real code: Chunk.color_str, one_arg_xforms / two_arg_xforms, termformatconstants.seq,
Chunk.__str__, FmtStr.__str__.
L1 (one run, any attribute dict, text of ANY length): an SGR interpreter started in the
default state and fed the run's string draws exactly the text, in state disp(atts), ends in
the default state and meets nothing but text and ESC[...m.
L2 (K <= 3 runs): str(f) is interpreted as a whole: run i's text drawn in run i's state, in
order, default state at the end.  L1 + L2 give every K (each run starts from the state the
previous one restored).
CH (1..3 runs of concrete characters whose CLASS - narrow, newline, tab, double-width, combining, NUL -
is a symbolic selector per character): the same oracle on native strings, so that runs made only of
zero-width or control characters are covered by the solver's enumeration of classes.
Domain: SegStr - the text is one symbolic source of symbolic length n >= 0; the escape
codes arrive as literal segments produced by the real code.
"""
import z3

from chx import hsupport as H
from chx.hsupport import P, verdict, sbool
from chx.domains.segstr import SegStr, zint, src_text, install_space_mul, SPACE_SRC
from chx.common import sgr_interpret, disp, STYLE_NAMES
from crosshair.tracers import NoTracing

PROP = "C01"
FUNCTIONS = ["Chunk.color_str", "one_arg_xforms[*]", "two_arg_xforms[*]", "termformatconstants.seq", "Chunk.__str__",
             "FmtStr.__str__", "Chunk.__init__", "FrozenAttributes"]
BOUNDS = ("L1: every attribute dictionary in the instance's slice of the 9 x 9 x 3^6 space (fg none/30..37, bg none/40..47, "
          "each style absent/True/False), text length n >= 0 unbounded (any ESC/0x9b-free text: characters are never "
          "inspected by the code). quick: all 729 style patterns x {no colour, fg only, bg only, both} + all 81 colour "
          "pairs x {no style, all six styles}; thorough: all 59049. L2: K <= 3 runs over a 12-pattern reduced set.")
STUBS = ["SegStr text domain (text = one abstract source of symbolic length)", "independent SGR interpreter as oracle "
         "(0,1-5,7,30-37,39,40-47,49; ESC[m = 0; anything else rejected)"]

REDUCED = [
    {}, {"fg": 31}, {"bg": 42}, {"fg": 33, "bg": 44}, {"bold": True}, {"bold": False}, {"underline": True, "fg": 35},
    {"bold": True, "dark": True, "italic": True, "underline": True, "blink": True, "invert": True, "fg": 37, "bg": 40},
    {"invert": True, "bg": 47}, {"italic": True, "blink": False, "fg": 30}, {"dark": True}, {"fg": 36, "bold": True, "bg": 41},
]


def instances(tier, seed):
    out = []
    T = 120 if tier == "quick" else 600
    if tier == "quick":
        # all 729 style patterns x 4 colour-presence combinations (one colour each)
        for fg, bg in ((0, 0), (2, 0), (0, 5), (4, 7)):
            for s0 in (0, 1, 2):      # split by the first style for parallelism
                out.append({"name": "L1-styles-fg%d-bg%d-s%d" % (fg, bg, s0), "fn": "lemma1", "timeout": T,
                            "params": {"fgs": [fg], "bgs": [bg], "styles": "all", "s0": s0}})
        for fg in range(9):
            out.append({"name": "L1-colours-fg%d" % fg, "fn": "lemma1", "timeout": T,
                        "params": {"fgs": [fg], "bgs": list(range(9)), "styles": "none+allsix", "s0": None}})
        for fg in (0, 3, 8):
            out.append({"name": "L1-reformat-fg%d" % fg, "fn": "lemma1", "timeout": T,
                        "params": {"fgs": [fg], "bgs": [0, 1, 6], "styles": "none+allsix", "s0": None, "via": "reformat"}})
    else:
        for fg in range(9):
            for bg in range(9):
                out.append({"name": "L1-all-fg%d-bg%d" % (fg, bg), "fn": "lemma1", "timeout": T,
                            "params": {"fgs": [fg], "bgs": [bg], "styles": "all", "s0": None}})
            out.append({"name": "L1-reformat-fg%d" % fg, "fn": "lemma1", "timeout": T,
                        "params": {"fgs": [fg], "bgs": list(range(9)), "styles": "none+allsix", "s0": None, "via": "reformat"}})
    # concrete character classes (narrow, newline, tab, double-width, combining, NUL): the class of every character is a
    # symbolic selector, so runs made only of zero-width or control characters, and every mix, are covered
    lens_list = [(1,), (2,), (1, 1), (0, 1), (2, 1), (1, 2), (1, 0, 1), (1, 1, 1)]
    if tier != "quick":
        lens_list += [(3,), (2, 2), (1, 1, 2), (2, 1, 1), (0, 2, 1)]
    for lt in lens_list:
        for grp in range(2 if tier == "quick" else 6):
            out.append({"name": "CH-%s-g%d" % ("".join(map(str, lt)), grp), "fn": "lemma_chars", "timeout": T, "cost": 6 ** sum(lt) / 10,
                        "params": {"lens": list(lt), "grp": grp, "chars": True, "npat": 3 if (tier == "quick" and sum(lt) >= 3) else 9}})
    # two adjacent runs, one with only a foreground and one with only a background colour, every pair, both orders, with and
    # without a common style (code that keys on the attribute set must tell all of them apart)
    for order in (0, 1):
        for sty in (0, 1):
            out.append({"name": "L2-pairs-o%d-s%d" % (order, sty), "fn": "lemma2", "timeout": T,
                        "params": {"K": 2, "first": None, "sample": False, "pairs": [order, sty]}})
    # the same values built by CONCATENATION of operands that were rendered before (plain str operands for unformatted runs)
    for K in (2, 3):
        for first in (range(0, len(REDUCED), 3) if tier == "quick" else range(len(REDUCED))):
            out.append({"name": "L2-concat-K%d-first%d" % (K, first), "fn": "lemma2p", "timeout": T,
                        "params": {"K": K, "first": first, "sample": K == 3, "via": "concat"}})
    for K in (0, 1, 2, 3):
        firsts = [None] if (K < 2) else list(range(len(REDUCED)))
        if tier == "quick" and K == 3:
            firsts = [None]
        for first in firsts:
            out.append({"name": "L2-K%d%s" % (K, "" if first is None else "-first%d" % first), "fn": "lemma2", "timeout": T,
                        "params": {"K": K, "first": first, "sample": (tier == "quick" and K == 3)}})
    return out


def witness_instances(fn, lst, tier):
    return [lst[len(lst) // 2]]


PATS = []      # the instance's concrete pattern list, computed once outside the tracer


def setup(params):
    from chx.domains import widths
    install_space_mul()
    widths.install_ext()      # a change that makes rendering depend on display width must not crash on the text domains
    PATS[:] = _l1_patterns() if "fgs" in params else (_ch_patterns(params) if params.get("chars") else _l2_patterns())


def selftest(rnd):
    from chx.selftests import segstr_selftest
    n = segstr_selftest(rnd, 100)
    # the oracle interpreter itself: agree with a few hand-written strings
    assert sgr_interpret("\x1b[31mab\x1b[39m") == ([("a", {"fg": 31}), ("b", {"fg": 31})], {})
    assert sgr_interpret("\x1b[1;44mx\x1b[m")[0] == [("x", {"bold": True, "bg": 44})]
    assert sgr_interpret("\x1b[2Ax") is None and sgr_interpret("\x1bAx") is None and sgr_interpret("\x9b1mx") is None
    assert sgr_interpret("\x1b[38m") is None
    from chx.domains import widths
    return n + 5 + widths.selftest_ext()


def _styles_ok(mode, s0p, s):
    if s0p is not None and s[0] != s0p:
        return False
    if mode == "all":
        return True
    # "none+allsix": no style at all, or all six True
    return all(v == 0 for v in s) or all(v == 1 for v in s)


def _mk_atts(fg, bg, s):
    atts = {}
    for v in range(1, 9):
        if fg == v:
            atts["fg"] = 29 + v
        if bg == v:
            atts["bg"] = 39 + v
    for name, v in zip(STYLE_NAMES, s):
        if v == 1:
            atts[name] = True
        elif v == 2:
            atts[name] = False
    return atts


def interp_segments(segs):
    """Walk a SegStr: literal segments go through the SGR interpreter, a symbolic text
    segment of length n draws n cells in the current state.  Returns (draws, final_state)
    with draws = [(source id, state, z3 length)], or None if anything but SGR sequences
    surrounds the text / a sequence is incomplete when text starts."""
    st = {}
    draws = []
    buf = ""
    for src, lo, hi in segs:
        if isinstance(src, tuple):
            lo_c = z3.simplify(lo)
            hi_c = z3.simplify(hi)
            if not (z3.is_int_value(lo_c) and z3.is_int_value(hi_c)):
                return None
            buf += src[1][lo_c.as_long():hi_c.as_long()]
        else:
            r = sgr_interpret(buf, st)
            if r is None:
                return None
            cs, st = r
            if cs:
                return None          # literal text between the codes: the run string must hold codes + the text only
            buf = ""
            draws.append((src, dict(st), hi - lo))
    r = sgr_interpret(buf, st)
    if r is None:
        return None
    cs, st = r
    if cs:
        return None
    return draws, st


def _l1_patterns():
    """the instance's slice of the attribute space, as a concrete list (fg, bg, styles)"""
    import itertools
    out = []
    for fg in P["fgs"]:
        for bg in P["bgs"]:
            for s in itertools.product((0, 1, 2), repeat=6):
                if _styles_ok(P["styles"], P["s0"], s):
                    out.append((fg, bg, s))
    return out


def _l1_n():
    return len(_l1_patterns())


def lemma1(n: int, sel: int) -> bool:
    """
    pre: n >= 0 and 0 <= sel < len(PATS)
    post: _
    """
    from curtsies.formatstring import FmtStr, Chunk
    from crosshair.core import realize
    fg, bg, sty = PATS[realize(sel)]     # one path per attribute dictionary
    atts = _mk_atts(fg, bg, sty)
    if P.get("via") == "reformat":
        # the same value reached through the public re-formatting path, after its source was already rendered
        f0 = FmtStr(Chunk(SegStr.source(0, n)))
        str(f0), len(f0), f0.s
        f = f0.copy_with_new_atts(**atts)
    else:
        f = FmtStr(Chunk(SegStr.source(0, n), atts))
    out = str(f)
    with NoTracing():
        segs = _segs_of(out)
        if segs is None:
            return verdict(False)
        r = interp_segments(segs)
        if r is None:
            return verdict(False)
        draws, st = r
        if st != {}:
            return verdict(False)
        nz = zint(n)
        if not draws:
            lenok = nz == 0            # nothing drawn: fine exactly when there is no text
        else:
            # exactly the text, once, in the run's state (an empty piece may be "drawn" anywhere: nothing is displayed)
            src, state, ln = draws[0]
            lenok = z3.And(ln == nz, z3.Or(z3.BoolVal(src == 0 and state == disp(atts)), nz == 0))
            for (_s, _st, l2) in draws[1:]:
                lenok = z3.And(lenok, l2 == 0)
        lenok = z3.simplify(lenok)
        nontrivial = z3.And(nz >= 2) if len(disp(atts)) >= 3 else z3.BoolVal(False)
    return verdict(sbool(lenok), sbool(nontrivial))


def _segs_of(out):
    from chx.domains.segstr import _lit
    if isinstance(out, SegStr):
        return out._segs
    if isinstance(out, str) and type(out) is str:
        return _lit(out)
    return None


def _l2_patterns():
    import itertools
    K = P["K"]
    out = []
    if P.get("pairs"):
        order, sty = P["pairs"]
        extra = {"bold": True} if sty else {}
        for fg in range(30, 38):
            for bg in range(40, 48):
                a, b = dict(extra, fg=fg), dict(extra, bg=bg)
                out.append((a, b) if order == 0 else (b, a))
        return out
    for t in itertools.product(range(len(REDUCED)), repeat=K):
        if P["first"] is not None and t and t[0] != P["first"]:
            continue
        if P["sample"] and (sum((5, 3, 1)[i] * v for i, v in enumerate(t)) % 6):
            continue
        out.append(t)
    return out


def _l2_n():
    return len(_l2_patterns())


def lemma2p(n0: int, n1: int, n2: int, sel: int, p: int) -> bool:
    """
    pre: n0 >= 0 and n1 >= 0 and n2 >= 0 and 0 <= sel < len(PATS)
    post: _
    """
    from curtsies.formatstring import FmtStr, Chunk
    from crosshair.core import realize
    K = P["K"]
    ns = [n0, n1, n2][:K]
    ai = PATS[realize(sel)]
    attl = [REDUCED[i] if isinstance(i, int) else i for i in ai]
    f = _l2_build(ns, attl, K, SegStr.source)
    fexp = FmtStr(*[Chunk(SegStr.source(i, ns[i]), attl[i]) for i in range(K)])     # the value the runs describe
    out = str(f)
    with NoTracing():
        # position-function comparison (p is universally quantified): the string draws, at every position, the character
        # the runs put there, in that run's displayed state; nothing else; default state at the end
        ok = H.render_term(fexp, out, p)
        nontrivial = z3.And(*[zint(x) >= 1 for x in ns])
    return verdict(sbool(ok), sbool(nontrivial))


def _l2_build(ns, attl, K, mk_text):
    from curtsies.formatstring import FmtStr, Chunk
    if P.get("via") != "concat":
        return FmtStr(*[Chunk(mk_text(i, ns[i]), attl[i]) for i in range(K)])
    # operands rendered / measured first, then joined with + ; an unformatted run is given as a plain str
    f = None
    for i in range(K):
        t = mk_text(i, ns[i])
        if attl[i] == {} and not (i == 0 and K == 1):
            piece = t
        else:
            piece = FmtStr(Chunk(t, attl[i]))
            H.warm(piece)
        if f is None:
            f = piece
        else:
            f = f + piece
            H.warm(f)
    if type(f).__name__ != "FmtStr":
        f = FmtStr(Chunk(f))
    return f


def lemma2(n0: int, n1: int, n2: int, sel: int) -> bool:
    """
    pre: n0 >= 0 and n1 >= 0 and n2 >= 0 and 0 <= sel < len(PATS)
    post: _
    """
    from curtsies.formatstring import FmtStr, Chunk
    from crosshair.core import realize
    K = P["K"]
    ns = [n0, n1, n2][:K]
    ai = PATS[realize(sel)]      # one path per pattern tuple
    attl = [REDUCED[i] if isinstance(i, int) else i for i in ai]
    f = _l2_build(ns, attl, K, SegStr.source)
    out = str(f)
    with NoTracing():
        segs = _segs_of(out)
        if segs is None:
            return verdict(False)
        r = interp_segments(segs)
        if r is None:
            return verdict(False)
        draws, st = r
        if st != {}:
            return verdict(False)
        # every run's text drawn exactly once, in order, in its own state; runs may be missing only when empty
        conj = []
        di = 0
        for i in range(K):
            if di < len(draws) and draws[di][0] == i:
                src, state, ln = draws[di]
                di += 1
                conj.append(ln == zint(ns[i]))
                if state != disp(attl[i]):
                    conj.append(zint(ns[i]) == 0)
            else:
                conj.append(zint(ns[i]) == 0)
        for (_src, _state, ln) in draws[di:]:
            conj.append(ln == 0)       # text drawn out of order (or twice) is tolerated only when it is empty
        ok = z3.And(*conj) if conj else z3.BoolVal(True)
        nontrivial = z3.And(*[zint(x) >= 1 for x in ns]) if (len({repr(a) for a in ai}) == K and K) else z3.BoolVal(K == 0)
    return verdict(sbool(ok), sbool(nontrivial))


CH = ["a", "\n", "\t", "\u754c", "\u0301", "\x00"]


def _ch_patterns(params):
    """attribute tuples (indices into REDUCED) for the instance: a fixed spread, different per group"""
    import itertools
    K = len(params["lens"])
    allt = list(itertools.product(range(len(REDUCED)), repeat=K))
    g = params["grp"]
    n = params.get("npat", 9)
    step = max(1, len(allt) // n)
    return [allt[(g * 5 + j * step + j) % len(allt)] for j in range(n)]


def _ch_texts(ks, lens):
    ts = []
    pos = 0
    for ln in lens:
        ts.append("".join(CH[ks[pos + j]] for j in range(ln)))
        pos += ln
    return ts


def lemma_chars(k0: int, k1: int, k2: int, k3: int, sel: int) -> bool:
    """
    pre: all((0 <= k < len(CH)) if i < sum(P["lens"]) else k == 0 for i, k in enumerate([k0, k1, k2, k3]))
    pre: 0 <= sel < len(PATS)
    post: _
    """
    from curtsies.formatstring import FmtStr, Chunk
    from crosshair.core import realize
    ks = [int(realize(k)) for k in (k0, k1, k2, k3)]
    ai = PATS[int(realize(sel))]
    ts = _ch_texts(ks, P["lens"])
    attl = [REDUCED[i] for i in ai]
    f = FmtStr(*[Chunk(t, a) for t, a in zip(ts, attl)])
    out = str(f)
    with NoTracing():
        want = [(c, disp(a)) for t, a in zip(ts, attl) for c in t]
        r = sgr_interpret(out) if type(out) is str else None
        ok = r is not None and r[0] == want and r[1] == {}
    return verdict(ok, len(set(ks[:sum(P["lens"])])) >= 2)


# ---------------------------------------------------------------- concrete twin (plain CPython)
EXOTIC = ["a", "\n", "\t", "界", "́", "Z", " ", "\x00", "\r", "~"]


def _text(sid, n, exotic):
    if exotic:
        return "".join(EXOTIC[(sid * 3 + k) % len(EXOTIC)] for k in range(n))
    return src_text(sid, n)


def _pyte_cells(s, n):
    import pyte
    screen = pyte.Screen(max(n, 1) + 2, 2)
    stream = pyte.Stream(screen)
    stream.feed(s)
    out = []
    for x in range(n):
        ch = screen.buffer[0][x]
        out.append((ch.data, ch.fg, ch.bg, ch.bold, ch.italics, ch.underscore, ch.reverse, ch.blink))
    cur = screen.cursor.attrs
    return out, (cur.fg, cur.bg, cur.bold, cur.italics, cur.underscore, cur.reverse, cur.blink)


_PYTE_COL = {30: "black", 31: "red", 32: "green", 33: "brown", 34: "blue", 35: "magenta", 36: "cyan", 37: "white"}


def _pyte_expect(c, d):
    return (c, _PYTE_COL.get(d.get("fg"), "default"), _PYTE_COL.get((d.get("bg") or 0) - 10, "default"),
            bool(d.get("bold")), bool(d.get("italic")), bool(d.get("underline")), bool(d.get("invert")), bool(d.get("blink")))


def concrete(fn, params, args):
    from curtsies.formatstring import FmtStr, Chunk
    from chx.common import cells, fmt_cells
    P.clear()
    P.update(params)
    if fn == "lemma_chars":
        ts = _ch_texts(list(args[:4]), params["lens"])
        attl = [REDUCED[i] for i in _ch_patterns(params)[args[4]]]
        f = FmtStr(*[Chunk(t, a) for t, a in zip(ts, attl)])
        want = [(c, disp(a)) for t, a in zip(ts, attl) for c in t]
        s = str(f)
        r = sgr_interpret(s)
        if r is None:
            return {"ok": False, "observed": repr(s), "expected": "only text and supported SGR sequences", "call": "str(%r)" % f}
        return {"ok": r[0] == want and r[1] == {}, "observed": fmt_cells(r[0]) + " | final state %r | %r" % (r[1], s),
                "expected": fmt_cells(want) + " | final state {}", "call": "str(%r)" % f}
    if fn == "lemma2p":
        fn = "lemma2"
        args = list(args[:4])
    if fn == "lemma1":
        n = args[0]
        fg, bg, sty = _l1_patterns()[args[1]]
        runs = [(n, _mk_atts(fg, bg, sty))]
    else:
        K = params["K"]
        ai = _l2_patterns()[args[3]]
        runs = [(args[i], REDUCED[ai[i]] if isinstance(ai[i], int) else ai[i]) for i in range(K)]
    if any(n > 3000 for n, _ in runs):
        return {"ok": None, "note": "counterexample too large to replay"}
    res = None
    for exotic in (False, True):
        if params.get("via") == "reformat":
            f0 = FmtStr(Chunk(_text(0, runs[0][0], exotic)))
            str(f0), len(f0), f0.s
            f = f0.copy_with_new_atts(**runs[0][1])
        elif params.get("via") == "concat":
            f = _l2_build([n for n, _ in runs], [a for _, a in runs], len(runs), lambda i, n: _text(i, n, exotic))
        else:
            f = FmtStr(*[Chunk(_text(i, n, exotic), a) for i, (n, a) in enumerate(runs)])
        want = cells(f)
        if params.get("via") == "concat":
            from chx.common import disp as _disp
            want = [(c, _disp(a)) for i, (n, a) in enumerate(runs) for c in _text(i, n, exotic)]
        s = str(f)
        r = sgr_interpret(s)
        if r is None:
            return {"ok": False, "observed": repr(s), "expected": "only text and supported SGR sequences", "call": "str(%r)" % f}
        got, st = r
        ok = got == want and st == {}
        res = {"ok": ok, "observed": fmt_cells(got) + " | final state %r | %r" % (st, s), "expected": fmt_cells(want) + " | final state {}",
               "call": "str(%r)" % f}
        if not ok:
            return res
        if not exotic and sum(n for n, _ in runs) <= 60:
            pc, cur = _pyte_cells(s, len(want))
            # pyte has no 'dark' attribute and is only a second opinion: disagreement -> harness problem, not violation
            pw = [_pyte_expect(c, d) for c, d in want]
            if pc != pw or cur != ("default", "default", False, False, False, False, False):
                return {"ok": None, "note": "pyte disagrees with the reference interpreter: %r vs %r" % (pc, pw)}
    return res
