"""C11 - width_aware_splitlines wraps to the column limit without losing anything.

Real code: FmtStr.width_aware_splitlines, _width_aware_splitlines, ChunkSplitter.reinit/request,
Chunk.splitter.
Symbolic: the width class (narrow / double-width / combining) of every character is a symbolic
selector enumerated by the solver, `columns` is a symbolic int >= 2; characters are one
representative per class (distinct per position, or identical in the 'twin' layouts so that
equal adjacent runs occur).
Oracle: the lines, concatenated, must equal the input cells with single padding spaces inserted
exactly before the double-width characters that would straddle a line boundary; every line
but the last exactly `columns` wide, none wider, none without characters.
"""
from chx import hsupport as H
from chx.hsupport import P, verdict
from chx.common import disp, cells, fmt_cells
from chx.domains import widths
from chx.harness.c10 import REPS

PROP = "C11"
FUNCTIONS = ["FmtStr.width_aware_splitlines", "FmtStr._width_aware_splitlines", "ChunkSplitter.reinit", "ChunkSplitter.request",
             "Chunk.splitter", "Chunk.__init__"]
BOUNDS = ("1..3 runs, run length 0..2 (quick) / 0..3 (thorough), total 1..4 (thorough 6), width class of every character "
          "symbolic (3 classes), columns symbolic 2..4 (thorough 2..6); layouts: distinct formatting and characters per run, "
          "and 'twin' (equal formatting and equal characters, so adjacent runs can be equal), 'echo' (equal characters, different formatting); "
          "interleave: two iterators over one value advanced alternately")
STUBS = ["width oracle instead of the cwcwidth C extension (validated on the alphabet on every run; replays use cwcwidth)",
         "one representative character per width class (the code inspects characters only through wcwidth/wcswidth)",
         "placement of a zero-width character relative to a line break is not constrained (the statement does not fix it)"]

ATTS = [{"fg": 31}, {"bold": True}, {"bg": 44}]
TWIN = "aＡ̀"


def instances(tier, seed):
    import itertools
    out = []
    T = 60 if tier == "quick" else 600      # instances finish in seconds; a short budget bounds the cost of a change that makes the real code loop
    maxrun = 2 if tier == "quick" else 3
    maxtot = 4 if tier == "quick" else 6
    cmax = 4 if tier == "quick" else 6
    for K in (1, 2, 3):
        lens = [t for t in itertools.product(range(0, maxrun + 1), repeat=K) if 1 <= sum(t) <= maxtot]
        if tier == "quick":
            lens = [t for t in lens if sum(t) < 4 or t in ((2, 2), (1, 2, 1), (2, 0, 2), (2, 1, 1))]
        for lt in lens:
            for layout in ("distinct", "twin", "echo"):
                if layout in ("twin", "echo") and (K == 1 or (tier == "quick" and sum(lt) > 3)):
                    continue
                parts = [None] if sum(lt) < 4 else [0, 1, 2]
                for part in parts:
                    out.append({"name": "split-K%d-%s-%s%s" % (K, "".join(map(str, lt)), layout, "" if part is None else "-p%d" % part),
                                "fn": "split", "timeout": T, "cost": sum(lt) ** 2,
                                "params": {"K": K, "lens": list(lt), "layout": layout, "part": part, "cmax": cmax}})
    # long runs (a run that starts mid-line and wraps more than once): all narrow, or one double-width character at a
    # position chosen by the solver
    # two line iterators over the same value, consumed alternately (each must still give its own lines)
    for lt in ((2, 1), (1, 2), (2, 2), (1, 1, 1)):
        out.append({"name": "inter-%s" % "".join(map(str, lt)), "fn": "split", "timeout": T, "cost": sum(lt) ** 2,
                    "params": {"K": len(lt), "lens": list(lt), "layout": "distinct", "part": None, "cmax": cmax, "interleave": True}})
    for lt in ((1, 5), (1, 6), (2, 5), (1, 7), (3, 4), (1, 1, 5), (2, 6)):
        for wide in (False, True):
            out.append({"name": "long-%s-%s" % ("".join(map(str, lt)), "wide" if wide else "narrow"), "fn": "split_long", "timeout": T, "cost": 6,
                        "params": {"K": len(lt), "lens": list(lt), "layout": "distinct", "wide": wide, "cmax": 4 if tier == "quick" else 5}})
    return out


def witness_instances(fn, lst, tier):
    pick = [i for i in lst if i["params"]["lens"] == [2, 1] and i["params"]["layout"] == "distinct"]
    return pick[:1] or lst[:1]


def setup(params):
    widths.install()


def selftest(rnd):
    return widths.selftest()


def _kpre(ks):
    n = sum(P["lens"])
    part = P.get("part")
    if part is not None and ks[0] != part:
        return False
    return all((0 <= k <= 2) if i < n else k == 0 for i, k in enumerate(ks))


def _texts_from(ks, params):
    ts = []
    pos = 0
    for ln in params["lens"]:
        t = ""
        for _ in range(ln):
            k = ks[pos]
            t += TWIN[k] if params["layout"] in ("twin", "echo") else REPS[k][pos]
            pos += 1
        ts.append(t)
    return ts


def _build(ts, params):
    from curtsies.formatstring import FmtStr, Chunk
    if params["layout"] == "twin":
        return FmtStr(*[Chunk(t, ATTS[0]) for t in ts])
    return FmtStr(*[Chunk(t, a) for t, a in zip(ts, ATTS)])


def expected_flat(cs, ws, columns):
    """cells with the padding spaces inserted; returns (flat list, number of pads)"""
    out = []
    col = 0
    pads = 0
    for (c, d), w in zip(cs, ws):
        if w == 2 and col == columns - 1:
            out.append((" ", d))
            pads += 1
            col = 0
        out.append((c, d))
        col += w
        if col >= columns:
            col = 0
    return out, pads


def judge(lines_cells, lines_w, cs, ws, columns):
    if any(len(l) == 0 for l in lines_cells):
        return False
    for i, w in enumerate(lines_w):
        if w > columns:
            return False
        if i < len(lines_w) - 1 and w != columns:
            return False
    flat = [x for l in lines_cells for x in l]
    want, _ = expected_flat(cs, ws, columns)
    return flat == want


def _lines(f, columns):
    """the lines for `columns`; in the interleave instances a second iterator (columns + 1) over the same value is advanced
    in lock step and its lines are thrown away"""
    if not P.get("interleave"):
        return list(f.width_aware_splitlines(columns))
    it1 = f.width_aware_splitlines(columns)
    it2 = f.width_aware_splitlines(columns + 1)
    out = []
    while True:
        try:
            out.append(next(it1))
        except StopIteration:
            break
        try:
            next(it2)
        except StopIteration:
            pass
    return out


def split(k0: int, k1: int, k2: int, k3: int, k4: int, k5: int, columns: int) -> bool:
    """
    pre: _kpre([k0, k1, k2, k3, k4, k5])
    pre: 2 <= columns <= P["cmax"]
    post: _
    """
    from crosshair.core import realize
    ks = [int(realize(k)) for k in (k0, k1, k2, k3, k4, k5)]
    ts = _texts_from(ks, P)
    f = _build(ts, P)
    cs = [(c, disp(ch.atts)) for ch in f.chunks for c in ch.s]
    ws = [widths.wcwidth(c) for c, _ in cs]
    lines = _lines(f, columns)
    lc = [[(c, disp(ch.atts)) for ch in ln.chunks for c in ch.s] for ln in lines]
    lw = [sum(widths.wcwidth(c) for c, _ in l) for l in lc]
    ok = judge(lc, lw, cs, ws, columns)
    return verdict(ok, len(lines) >= 2 and 2 in ws)


LONGREP = "abcdefghijkl"


def _long_texts(params, wpos):
    ts = []
    pos = 0
    for ln in params["lens"]:
        t = ""
        for _ in range(ln):
            t += "\uff25" if (params["wide"] and pos == wpos) else LONGREP[pos]
            pos += 1
        ts.append(t)
    return ts


def split_long(wpos: int, columns: int) -> bool:
    """
    pre: 0 <= wpos < sum(P["lens"]) and 2 <= columns <= P["cmax"]
    pre: P["wide"] or wpos == 0
    post: _
    """
    from crosshair.core import realize
    ts = _long_texts(P, int(realize(wpos)))
    f = _build(ts, P)
    cs = [(c, disp(ch.atts)) for ch in f.chunks for c in ch.s]
    ws = [widths.wcwidth(c) for c, _ in cs]
    lines = list(f.width_aware_splitlines(columns))
    lc = [[(c, disp(ch.atts)) for ch in ln.chunks for c in ch.s] for ln in lines]
    lw = [sum(widths.wcwidth(c) for c, _ in l) for l in lc]
    return verdict(judge(lc, lw, cs, ws, columns), len(lines) >= 3)


# ---------------------------------------------------------------- concrete twin (plain CPython, real cwcwidth)
def concrete(fn, params, args):
    import cwcwidth
    if fn == "split_long":
        wpos, columns = args
        ts = _long_texts(params, wpos)
        f = _build(ts, params)
        cs = cells(f)
        ws = [cwcwidth.wcwidth(c) for c, _ in cs]
        call = "list(%r .width_aware_splitlines(%d))" % (f, columns)
        try:
            lines = list(f.width_aware_splitlines(columns))
        except Exception as ex:
            return {"ok": False, "observed": "raised %r" % (ex,), "expected": "lines", "call": call}
        lc = [cells(l) for l in lines]
        lw = [sum(cwcwidth.wcwidth(c) for c, _ in l) for l in lc]
        want, _ = expected_flat(cs, ws, columns)
        return {"ok": judge(lc, lw, cs, ws, columns), "observed": "%r widths %r" % ([fmt_cells(l) for l in lc], lw),
                "expected": "lines of width %d (last <= %d) concatenating to %s" % (columns, columns, fmt_cells(want)), "call": call}
    ks = list(args[:6])
    columns = args[6]
    ts = _texts_from(ks, params)
    f = _build(ts, params)
    cs = cells(f)
    ws = [cwcwidth.wcwidth(c) for c, _ in cs]
    call = "list(%r .width_aware_splitlines(%d))" % (f, columns) + (" [a second iterator for %d columns advanced alternately]" % (columns + 1) if params.get("interleave") else "")
    try:
        P.clear()
        P.update(params)
        lines = _lines(f, columns)
    except Exception as ex:
        return {"ok": False, "observed": "raised %r" % (ex,), "expected": "lines", "call": call}
    lc = [cells(l) for l in lines]
    lw = [sum(cwcwidth.wcwidth(c) for c, _ in l) for l in lc]
    want, _ = expected_flat(cs, ws, columns)
    return {"ok": judge(lc, lw, cs, ws, columns), "observed": "%r widths %r" % ([fmt_cells(l) for l in lc], lw),
            "expected": "lines of width %d (last <= %d) concatenating to %s" % (columns, columns, fmt_cells(want)), "call": call}
