"""C14 - applying or removing formatting touches exactly the named attributes.

Real code: parse_args, fmtstr, the fmtfuncs partials, FmtStr.copy_with_new_atts,
new_with_atts_removed, copy_with_new_str, shared_atts, FrozenAttributes.extend/remove.
Symbolic: colour numbers (unbounded ints), style values (bools), run lengths (SegStr,
unbounded, empty runs included); the specification spellings, base attribute layouts and
operation sequences are catalogue entries enumerated by the solver through a selector.
"""
import itertools

import z3

from chx import hsupport as H
from chx.hsupport import P, verdict, sbool
from chx.domains.segstr import SegStr, zint, src_text, install_space_mul
from chx.common import STYLE_NAMES, disp
from crosshair.tracers import NoTracing

PROP = "C14"
FUNCTIONS = ["parse_args", "fmtstr", "fmtfuncs.*", "FmtStr.copy_with_new_atts", "FmtStr.new_with_atts_removed",
             "FmtStr.copy_with_new_str", "FmtStr.shared_atts", "FrozenAttributes.extend", "FrozenAttributes.remove"]
BOUNDS = ("base FmtStr: 1..3 runs with attribute dictionaries from a 9-entry catalogue, run lengths >= 0 unbounded; colour "
          "numbers: all of Z; style values: both bools; names: a 60-entry catalogue of valid / differently-cased / malformed "
          "names in every spelling (positional, style=, fg=, bg=); operation sequences of length <= 2 (thorough 3) over a "
          "24-entry operation catalogue, nested and in one call; all fmtfuncs")
STUBS = ["text rendered from a symbolic int (only the ValueError messages here) is a placeholder", "SegStr text domain (texts abstract: the code under test never looks at characters)",
         "independent re-statement of the attribute specification (spec_parse) as oracle"]

COLOURS = ("black", "red", "green", "yellow", "blue", "magenta", "cyan", "gray")
BASE_ATTS = [{}, {"fg": 31}, {"bg": 44}, {"bold": True}, {"bold": False, "fg": 35}, {"fg": 32, "bg": 41, "underline": True},
             {"invert": True, "dark": True}, {"italic": True, "blink": True, "bg": 47}, {"fg": 34}]
BASES = [(0,), (1,), (5,), (3, 1), (1, 1), (4, 6), (5, 5), (0, 7), (3, 0, 3), (1, 2, 5), (6, 6, 6), (4, 1, 7),
         (1, 8), (8, 3, 1)]      # runs with the same attribute names and different values

NAMES = (["red", "gray", "black", "on_blue", "on_gray", "on_black", "bold", "dark", "italic", "underline", "blink", "invert"]
         + ["RED", "Red", "ON_BLUE", "On_Blue", "on_BLUE", "BOLD", "Bold", "Invert"]
         + ["", " ", "redd", "re", "on_", "on", "on_on_red", "onred", "on-red", "fg", "bg", "style", "plain", "reset", "normal",
            "white", "grey", "purple", "on_white", "bright_red", "31", "red ", " red", "bold,red", "underlined", "blinking",
            "reverse", "inverse", "strike", "on_bold", "on_31", "default", "none", "None", "true", "False", "light", "dim",
            "colour", "color"])
WAYS = ("pos", "style", "fg", "bg")

# operation catalogue for sequences: (kind, argument)
OPS = ([("pos", n) for n in ("red", "blue", "on_red", "on_cyan", "bold", "underline", "invert")]
       + [("fgname", "green"), ("bgname", "yellow"), ("fgnum", None), ("bgnum", None)]
       + [("stylekw", s) for s in ("bold", "dark", "blink")]
       + [("func", n) for n in ("red", "on_blue", "bold", "italic", "plain")]
       + [("remove", ("fg",)), ("remove", ("bold",)), ("remove", ("bg", "underline"))]
       # several attributes in ONE call (more new attributes than a run may already carry)
       + [("multi", ("blue", "bold")), ("multi", ("on_green", "underline", "magenta"))])


def instances(tier, seed):
    out = []
    T = 120 if tier == "quick" else 400
    for which in ("fg", "bg"):
        for via in ("fmtstr", "onfmt"):
            out.append({"name": "kwnum-%s-%s" % (which, via), "fn": "kwnum", "timeout": T, "params": {"which": which, "via": via}})
    for way in WAYS:
        out.append({"name": "names-%s" % way, "fn": "names", "timeout": T, "params": {"way": way}})
    nops = len(OPS)
    L = 2
    for first in range(nops):
        out.append({"name": "seq-first%02d" % first, "fn": "seq", "timeout": T,
                    "params": {"first": first, "L": L, "sample": tier == "quick", "nbases": 2 if tier == "quick" else 5}})
    if tier != "quick":
        for first in range(nops):
            for second in range(0, nops, 3):
                out.append({"name": "seq3-%02d-%02d" % (first, second), "fn": "seq", "timeout": T,
                            "params": {"first": first, "second": second, "L": 3, "sample": True}})
    for b0 in range(0, len(BASES), 2):
        out.append({"name": "funcs-b%d" % b0, "fn": "funcs", "timeout": T, "params": {"b0": b0}})
    for K in (1, 2, 3):
        for first in ([None] if K < 3 else range(4)):
            out.append({"name": "shared-K%d%s" % (K, "" if first is None else "-f%d" % first), "fn": "shared", "timeout": T,
                        "params": {"K": K, "first": first}})
    out.append({"name": "twice", "fn": "twice", "timeout": T, "params": {}})
    return out


def setup(params):
    install_space_mul()
    H.abstract_int_text()     # "Bad fg value: {n!r}" formats the symbolic colour number
    if "L" in params:
        SEQS[:] = _seqs()


# ---- independent specification ----------------------------------------------------------
class Bad(Exception):
    pass


def spec_parse(args, kwargs):
    """what the documented rules say: the attribute dict, or Bad.  `lenient` lists results that are
    acceptable alternatives (a name that is valid up to letter case may be accepted or rejected)."""
    kw = dict(kwargs)
    names = list(args)
    if "style" in kw:
        names.append(kw.pop("style"))
    out = {}
    for k, v in kw.items():
        if k == "fg":
            if isinstance(v, str):
                if v not in COLOURS:
                    raise Bad
                out["fg"] = 30 + COLOURS.index(v)
            else:
                if not (30 <= v <= 37):
                    raise Bad
                out["fg"] = v
        elif k == "bg":
            if isinstance(v, str):
                if v not in COLOURS:
                    raise Bad
                out["bg"] = 40 + COLOURS.index(v)
            else:
                if not (40 <= v <= 47):
                    raise Bad
                out["bg"] = v
        elif k in STYLE_NAMES:
            out[k] = v
        else:
            raise Bad
    for n in names:
        if not isinstance(n, str):
            raise Bad
        low = n.lower()
        if low in COLOURS:
            if "fg" in out:
                raise Bad
            out["fg"] = 30 + COLOURS.index(low)
        elif low.startswith("on_") and low[3:] in COLOURS:
            if "bg" in out:
                raise Bad
            out["bg"] = 40 + COLOURS.index(low[3:])
        elif low in STYLE_NAMES:
            out[low] = True
        else:
            raise Bad
    return out


def _exact_case(names):
    return all(n == n.lower() for n in names)


def _base(bi, ns, mk):
    from curtsies.formatstring import FmtStr, Chunk
    return FmtStr(*[Chunk(mk(i, ns[i]), BASE_ATTS[a]) for i, a in enumerate(BASES[bi])])


def sdisp(d):
    """what an attribute dict displays as (False == absent); works on symbolic bools too"""
    out = {}
    for k, v in d.items():
        if isinstance(v, bool) and not v:
            continue
        out[k] = v
    return out


def _atts_list(f):
    return [sdisp(c.atts) for c in f.chunks]


def _str_fresh_ok(r):
    """the terminal string of a result equals that of a fresh FmtStr built from the same runs (call under tracing)"""
    from curtsies.formatstring import FmtStr, Chunk
    fresh = FmtStr(*[Chunk(c.s, dict(c.atts)) for c in r.chunks])
    a, b = str(r), str(fresh)
    with NoTracing():
        sa = a._segs if isinstance(a, SegStr) else None
        sb_ = b._segs if isinstance(b, SegStr) else None
        if sa is None or sb_ is None:
            return isinstance(a, str) and isinstance(b, str) and type(a) is str and type(b) is str and a == b
        if len(sa) != len(sb_):
            return False
        conj = []
        for (s1, l1, h1), (s2, l2, h2) in zip(sa, sb_):
            if s1 != s2:
                return False
            conj.append(z3.And(l1 == l2, h1 == h2))
        t = z3.And(*conj) if conj else z3.BoolVal(True)
    return bool(sbool(t))


def _same_texts(f, g):
    return len(f.chunks) == len(g.chunks) and all(a.s is b.s for a, b in zip(f.chunks, g.chunks))


def _expect(base_atts, new):
    return [sdisp(dict(a, **new)) for a in base_atts]


def kwnum(n0: int, n1: int, n2: int, bsel: int, num: int) -> bool:
    """
    pre: n0 >= 0 and n1 >= 0 and n2 >= 0 and 0 <= bsel < len(BASES)
    post: _
    """
    from curtsies.formatstring import fmtstr
    from crosshair.core import realize
    bi = realize(bsel)
    which = P["which"]
    ns = [n0, n1, n2]
    base = _base(bi, ns, SegStr.source)
    before = _atts_list(base)
    lo = 30 if which == "fg" else 40
    valid = lo <= num <= lo + 7
    arg = base if P["via"] == "onfmt" else base.chunks[0].s
    try:
        r = fmtstr(arg, **{which: num})
    except ValueError:
        return verdict(not valid, False)
    if not valid:
        return verdict(False)
    if P["via"] == "onfmt":
        ok = _same_texts(r, base) and _atts_list(r) == _expect(before, {which: num}) and _atts_list(base) == before
    else:
        ok = len(r.chunks) == 1 and r.chunks[0].s is arg and sdisp(r.chunks[0].atts) == {which: num}
    return verdict(ok, num == lo + 3)


def names(n0: int, n1: int, n2: int, bsel: int, nsel: int) -> bool:
    """
    pre: n0 >= 0 and n1 >= 0 and n2 >= 0 and 0 <= bsel < 4 and 0 <= nsel < len(NAMES)
    post: _
    """
    from curtsies.formatstring import fmtstr
    from crosshair.core import realize
    bi = [0, 3, 5, 9][realize(bsel)]
    name = NAMES[realize(nsel)]
    way = P["way"]
    base = _base(bi, [n0, n1, n2], SegStr.source)
    before = _atts_list(base)
    args, kwargs = ((name,), {}) if way == "pos" else ((), {way: name})
    try:
        want = spec_parse(args, kwargs)
        bad = False
    except Bad:
        bad = True
        want = None
    try:
        r = fmtstr(base, *args, **kwargs)
    except ValueError:
        # rejecting is right for a bad spec; for a name that is valid only up to letter case it is acceptable too
        return verdict(bad or name != name.lower(), False)
    if bad:
        return verdict(False)
    # a conflicting earlier fg/bg in the base is overridden, not an error (it is an existing FmtStr, not a second spec)
    ok = _same_texts(r, base) and _atts_list(r) == _expect(before, want) and _atts_list(base) == before
    return verdict(ok, len(want) == 1 and bi == 5)


def _apply_real(f, op, num, b):
    from curtsies.formatstring import fmtstr
    from curtsies import fmtfuncs
    kind, arg = op
    if kind == "pos":
        return fmtstr(f, arg)
    if kind == "fgname":
        return fmtstr(f, fg=arg)
    if kind == "bgname":
        return fmtstr(f, bg=arg)
    if kind == "fgnum":
        return fmtstr(f, fg=num)
    if kind == "bgnum":
        return fmtstr(f, bg=num + 10)
    if kind == "stylekw":
        return fmtstr(f, **{arg: b})
    if kind == "func":
        return getattr(fmtfuncs, arg)(f)
    if kind == "remove":
        return f.new_with_atts_removed(*arg)
    if kind == "multi":
        return fmtstr(f, *arg)
    raise KeyError(kind)


def _apply_spec(atts_list, op, num, b):
    kind, arg = op
    if kind == "remove":
        return [sdisp({k: v for k, v in a.items() if k not in arg}) for a in atts_list]
    if kind == "pos":
        new = spec_parse((arg,), {})
    elif kind == "fgname":
        new = spec_parse((), {"fg": arg})
    elif kind == "bgname":
        new = spec_parse((), {"bg": arg})
    elif kind == "fgnum":
        new = {"fg": num}
    elif kind == "bgnum":
        new = {"bg": num + 10}
    elif kind == "stylekw":
        new = {arg: b}
    elif kind == "func":
        new = {} if arg == "plain" else spec_parse((arg,), {})
    elif kind == "multi":
        new = spec_parse(tuple(arg), {})
    return [sdisp(dict(a, **new)) for a in atts_list]


SEQS = []     # the instance's operation tuples, computed once outside the tracer
SEQ_BASES = [12, 5, 1, 4, 11]


def _seqs():
    nops = len(OPS)
    L = P["L"]
    firsts = [P["first"]]
    rest = [range(nops)] * (L - 1)
    if "second" in P:
        rest = [[P["second"]]] + [range(nops)] * (L - 2)
    out = []
    for t in itertools.product(firsts, *rest):
        if P.get("sample") and L == 2 and (t[0] * 7 + t[1]) % 2:
            continue
        if P.get("sample") and L == 3 and (t[0] + t[1] * 5 + t[2] * 3) % 4:
            continue
        out.append(t)
    return out


def seq(n0: int, n1: int, n2: int, bsel: int, osel: int, num: int, b1: bool, b2: bool, b3: bool) -> bool:
    """
    pre: n0 >= 0 and n1 >= 0 and n2 >= 0 and 0 <= bsel < P.get("nbases", 5) and 0 <= osel < len(SEQS) and 30 <= num <= 37
    post: _
    """
    from crosshair.core import realize
    bi = SEQ_BASES[realize(bsel)]
    ops = [OPS[i] for i in SEQS[realize(osel)]]
    bs = [b1, b2, b3]
    base = _base(bi, [n0, n1, n2], SegStr.source)
    before = _atts_list(base)
    if b3:
        str(base), len(base), base.s          # the source was already rendered before it is re-formatted
    cur = base
    want = before
    for i, op in enumerate(ops):
        cur = _apply_real(cur, op, num, bs[i])
        want = _apply_spec(want, op, num, bs[i])
    ok = _same_texts(cur, base) and _atts_list(cur) == want and _atts_list(base) == before and _str_fresh_ok(cur)
    return verdict(ok, len(set(SEQS[0])) > 1 and bi == 5)


FUNC_NAMES = list(COLOURS) + ["on_" + c for c in COLOURS] + list(STYLE_NAMES) + ["on_dark", "plain"]


def funcs(n0: int, n1: int, n2: int, bsel: int, fsel: int) -> bool:
    """
    pre: n0 >= 0 and n1 >= 0 and n2 >= 0 and P["b0"] <= bsel < min(P["b0"] + 2, len(BASES)) and 0 <= fsel < len(FUNC_NAMES)
    post: _
    """
    from crosshair.core import realize
    from curtsies import fmtfuncs
    from curtsies.formatstring import fmtstr
    bi = realize(bsel)
    fname = FUNC_NAMES[realize(fsel)]
    base = _base(bi, [n0, n1, n2], SegStr.source)
    before = _atts_list(base)
    str(base)                                  # rendered before: results must not inherit its terminal string
    r = getattr(fmtfuncs, fname)(base)
    if fname == "plain":
        new = {}
    elif fname == "on_dark":
        new = {"bg": 40}
    else:
        new = spec_parse((fname,), {})
    ok = _same_texts(r, base) and _atts_list(r) == _expect(before, new) and _atts_list(base) == before and _str_fresh_ok(r)
    # equivalent spellings give identical results
    if fname not in ("plain", "on_dark"):
        alts = [fmtstr(base, fname), fmtstr(base, style=fname), base.copy_with_new_atts(**new)]
        if "fg" in new:
            alts += [fmtstr(base, fg=fname), fmtstr(base, fg=new["fg"])]
        elif "bg" in new:
            alts += [fmtstr(base, bg=fname[3:]), fmtstr(base, bg=new["bg"])]
        else:
            alts += [fmtstr(base, **{fname: True})]
        for alt in alts:
            ok = ok and _same_texts(alt, r) and _atts_list(alt) == _atts_list(r)
    return verdict(ok, bi == 9 and fname == "on_cyan")


SHARED_ATTS = [{}, {"fg": 31}, {"fg": 31, "bold": True}, {"fg": 32, "bold": True}, {"bold": False, "fg": 31}, {"bg": 44, "fg": 31}]


def shared(n0: int, n1: int, n2: int, s0: int, s1: int, s2: int) -> bool:
    """
    pre: n0 >= 0 and n1 >= 0 and n2 >= 0
    pre: 0 <= s0 < len(SHARED_ATTS) and 0 <= s1 < len(SHARED_ATTS) and 0 <= s2 < len(SHARED_ATTS)
    pre: (P["K"] >= 2 or s1 == 0) and (P["K"] >= 3 or s2 == 0) and (P["first"] is None or (s0 == P["first"] and s1 < 4 and s2 < 4))
    post: _
    """
    from crosshair.core import realize
    from curtsies.formatstring import FmtStr, Chunk
    K = P["K"]
    ns = [n0, n1, n2][:K]
    al = [SHARED_ATTS[realize(s)] for s in (s0, s1, s2)][:K]
    f = FmtStr(*[Chunk(SegStr.source(i, ns[i]), al[i]) for i in range(K)])
    sh = f.shared_atts
    ok = True
    for k, v in sh.items():
        for i in range(K):
            if ns[i] > 0 and not (k in al[i] and al[i][k] == v):
                ok = False
    # copy_with_new_str keeps a uniformly formatted string's formatting
    # uniformly formatted: every run that holds characters shows the same formatting; empty runs either show the
    # same or are plain (strings accumulated from fmtstr(''))
    full = [disp(al[i]) for i in range(K) if ns[i] > 0]
    empt = [disp(al[i]) for i in range(K) if not (ns[i] > 0)]
    g = f.copy_with_new_str(SegStr.source(9, n0))
    if full and all(d == full[0] for d in full) and all(d == full[0] or d == {} for d in empt):
        ok = ok and len(g.chunks) == 1 and disp(g.chunks[0].atts) == full[0] and g.chunks[0].s is not None
    return verdict(ok, K >= 2 and len(sh) >= 1 and n0 > 0)


def twice(n0: int, w1: int, w2: int, c1: int, c2: int) -> bool:
    """
    pre: n0 >= 0 and 0 <= w1 < 3 and 0 <= w2 < 3 and 0 <= c1 < 3 and 0 <= c2 < 3
    post: _
    """
    # the same attribute kind specified twice in ONE call is contradictory -> ValueError
    from crosshair.core import realize
    from curtsies.formatstring import fmtstr
    cols = ("red", "blue", "red")
    kinds = ("pos", "style", "kw")
    k1, k2 = kinds[realize(w1)], kinds[realize(w2)]
    a, b = cols[realize(c1)], cols[realize(c2)]
    args = []
    kwargs = {}
    for kk, col in ((k1, a), (k2, b)):
        if kk == "pos":
            args.append(col)
        elif kk == "style":
            if "style" in kwargs:
                return verdict(True, False)
            kwargs["style"] = col
        else:
            if "fg" in kwargs:
                return verdict(True, False)
            kwargs["fg"] = col
    try:
        fmtstr(SegStr.source(0, n0), *args, **kwargs)
    except ValueError:
        return verdict(True, True)
    return verdict(False)


# ---------------------------------------------------------------- concrete twin (plain CPython)
def concrete(fn, params, args):
    from curtsies.formatstring import fmtstr, FmtStr, Chunk
    from curtsies import fmtfuncs
    P.clear()
    P.update(params)
    ints = [a for a in args if isinstance(a, int) and not isinstance(a, bool)]
    if fn != "kwnum" and max(abs(x) for x in ints) > 3000:
        return {"ok": None, "note": "too large"}

    def attempt(fun):
        try:
            return fun(), None
        except ValueError as ex:
            return None, "ValueError"
        except Exception as ex:
            return None, repr(ex)

    if fn == "kwnum":
        n0, n1, n2, bi, num = args
        ns = [min(abs(n0), 50), min(abs(n1), 50), min(abs(n2), 50)]
        which = params["which"]
        base = _base(bi, ns, src_text)
        before = _atts_list(base)
        lo = 30 if which == "fg" else 40
        valid = lo <= num <= lo + 7
        arg = base if params["via"] == "onfmt" else base.chunks[0].s
        r, err = attempt(lambda: fmtstr(arg, **{which: num}))
        call = "fmtstr(%r, %s=%r)" % (arg, which, num)
        if err:
            return {"ok": err == "ValueError" and not valid, "observed": err, "expected": "ValueError iff the number is not a colour", "call": call}
        want = _expect(before, {which: num}) if params["via"] == "onfmt" else [{which: num}]
        return {"ok": valid and _atts_list(r) == want and r.s == (base.s if params["via"] == "onfmt" else arg),
                "observed": repr(_atts_list(r)), "expected": repr(want) if valid else "ValueError", "call": call}
    if fn == "names":
        n0, n1, n2, bsel, nsel = args
        bi = [0, 3, 5, 9][bsel]
        name = NAMES[nsel]
        way = params["way"]
        base = _base(bi, [n0, n1, n2], src_text)
        before = _atts_list(base)
        a, kw = ((name,), {}) if way == "pos" else ((), {way: name})
        try:
            want = spec_parse(a, kw)
            bad = False
        except Bad:
            bad = True
            want = None
        r, err = attempt(lambda: fmtstr(base, *a, **kw))
        call = "fmtstr(%r, *%r, **%r)" % (base, a, kw)
        if err:
            return {"ok": err == "ValueError" and (bad or name != name.lower()), "observed": err,
                    "expected": "ValueError" if bad else repr(want), "call": call}
        if bad:
            return {"ok": False, "observed": repr(_atts_list(r)), "expected": "ValueError", "call": call}
        return {"ok": _atts_list(r) == _expect(before, want) and r.s == base.s and _atts_list(base) == before,
                "observed": repr(_atts_list(r)), "expected": repr(_expect(before, want)), "call": call}
    if fn == "seq":
        n0, n1, n2, bsel, osel, num, b1, b2, b3 = args
        bi = SEQ_BASES[bsel]
        ops = [OPS[i] for i in _seqs()[osel]]
        base = _base(bi, [n0, n1, n2], src_text)
        before = _atts_list(base)
        if b3:
            str(base), len(base), base.s
        cur, want = base, before
        bs = [b1, b2, b3]
        try:
            for i, op in enumerate(ops):
                cur = _apply_real(cur, op, num, bs[i])
                want = _apply_spec(want, op, num, bs[i])
        except Exception as ex:
            return {"ok": False, "observed": repr(ex), "expected": repr(want), "call": "%r through %r" % (base, ops)}
        fresh = FmtStr(*[Chunk(c.s, dict(c.atts)) for c in cur.chunks])
        return {"ok": _atts_list(cur) == want and cur.s == base.s and _atts_list(base) == before and str(cur) == str(fresh),
                "observed": repr(_atts_list(cur)) + " str=%r" % str(cur),
                "expected": repr(want), "call": "%r through %r (num=%r, bools=%r)" % (base, ops, num, bs)}
    if fn == "funcs":
        n0, n1, n2, bi, fsel = args
        fname = FUNC_NAMES[fsel]
        base = _base(bi, [n0, n1, n2], src_text)
        before = _atts_list(base)
        new = {} if fname == "plain" else ({"bg": 40} if fname == "on_dark" else spec_parse((fname,), {}))
        str(base)
        r, err = attempt(lambda: getattr(fmtfuncs, fname)(base))
        if err:
            return {"ok": False, "observed": err, "expected": repr(_expect(before, new)), "call": "%s(%r)" % (fname, base)}
        ok = _atts_list(r) == _expect(before, new) and r.s == base.s and str(r) == str(FmtStr(*[Chunk(c.s, dict(c.atts)) for c in r.chunks]))
        if ok and fname not in ("plain", "on_dark"):
            alts = [fmtstr(base, fname), fmtstr(base, style=fname), base.copy_with_new_atts(**new)]
            if "fg" in new:
                alts += [fmtstr(base, fg=fname), fmtstr(base, fg=new["fg"])]
            elif "bg" in new:
                alts += [fmtstr(base, bg=fname[3:]), fmtstr(base, bg=new["bg"])]
            else:
                alts += [fmtstr(base, **{fname: True})]
            ok = all(_atts_list(x) == _atts_list(r) and str(x) == str(r) for x in alts)
        return {"ok": ok, "observed": repr(_atts_list(r)), "expected": repr(_expect(before, new)), "call": "%s(%r) and its spellings" % (fname, base)}
    if fn == "shared":
        n0, n1, n2, s0, s1, s2 = args
        K = params["K"]
        ns = [n0, n1, n2][:K]
        al = [SHARED_ATTS[s] for s in (s0, s1, s2)][:K]
        f = FmtStr(*[Chunk(src_text(i, ns[i]), al[i]) for i in range(K)])
        sh = f.shared_atts
        ok = all(k in al[i] and al[i][k] == v for k, v in sh.items() for i in range(K) if ns[i] > 0)
        g = f.copy_with_new_str(src_text(9, n0))
        full = [disp(al[i]) for i in range(K) if ns[i] > 0]
        empt = [disp(al[i]) for i in range(K) if not (ns[i] > 0)]
        if full and all(d == full[0] for d in full) and all(d == full[0] or d == {} for d in empt):
            ok = ok and g.s == src_text(9, n0) and all(disp(c.atts) == full[0] for c in g.chunks)
        return {"ok": ok, "observed": "shared_atts=%r copy_with_new_str=%r" % (sh, g), "expected": "only attributes every character has",
                "call": "%r" % f}
    if fn == "twice":
        n0, w1, w2, c1, c2 = args
        cols = ("red", "blue", "red")
        kinds = ("pos", "style", "kw")
        a, kw = [], {}
        for kk, col in ((kinds[w1], cols[c1]), (kinds[w2], cols[c2])):
            if kk == "pos":
                a.append(col)
            elif kk == "style":
                if "style" in kw:
                    return {"ok": True, "observed": "n/a", "call": "skipped"}
                kw["style"] = col
            else:
                if "fg" in kw:
                    return {"ok": True, "observed": "n/a", "call": "skipped"}
                kw["fg"] = col
        r, err = attempt(lambda: fmtstr(src_text(0, n0), *a, **kw))
        return {"ok": err == "ValueError", "observed": err or repr(r), "expected": "ValueError (fg specified twice)", "call": "fmtstr(.., *%r, **%r)" % (a, kw)}
    raise KeyError(fn)
