"""C12 - leaving any curtsies context restores terminal, tty and signal state.

Real code: Input.__enter__/__exit__/send/_send/_wait_for_read_ready_or_timeout/_nonblocking_read,
ReplacedSigIntHandler, event_trigger / threadsafe_event_trigger, Nonblocking, Termmode, Cbreak,
BaseWindow / FullscreenWindow / CursorAwareWindow __enter__/__exit__ (+ render_to_terminal in the body).
Environment: OS model (tty attributes, status flags, SIGINT disposition, wake-up fd, fd table,
pipes, select, clock) + terminal model (cursor visibility, alternate screen, main buffer).
Symbolic: the scenario - configuration bools, initial tty/flag/handler/wake-up state, the body of
operations, the CRASH POINT (the k-th model call inside the body raises an ordinary exception or
KeyboardInterrupt) - is a tuple of selectors that the solver enumerates exhaustively; once a
scenario is realised it runs on concrete values (real `with` blocks).
"""
import itertools
import os as real_os

from chx import hsupport as H
from chx.hsupport import P, verdict
from chx.domains import osmodel
from chx.domains.osmodel import OS, FakeStream, Crash, O_NONBLOCK
from chx.domains.termmodel import TermModel, Recorder, Tagged, sized_terminal

PROP = "C12"
FUNCTIONS = ["Input.__enter__", "Input.__exit__", "Input.send", "Input._send", "Input._wait_for_read_ready_or_timeout",
             "Input._nonblocking_read", "Input.sigint_handler", "ReplacedSigIntHandler", "Input.event_trigger",
             "Input.threadsafe_event_trigger", "Nonblocking", "Termmode", "Cbreak", "BaseWindow.__enter__/__exit__",
             "FullscreenWindow.__enter__/__exit__", "CursorAwareWindow.__enter__/__exit__", "render_to_terminal (body)"]
BOUNDS = ("contexts: Input (sigint_event x disable_terminal_start_stop), Input nested in Input, FullscreenWindow and "
          "CursorAwareWindow (hide_cursor x keep_last_line) alone and inside an Input, Cbreak (+ its Termmode), Nonblocking, "
          "Termmode; initial state: 4 tty attribute vectors x 3 status-flag words (O_NONBLOCK set included) x 4 SIGINT "
          "dispositions x 2 wake-up fds, Input contexts also in a non-main thread (signal functions raise there, as in CPython); body: up to 2 operations out of {request with nothing pending, request with a key "
          "pending, event trigger, thread-safe trigger, SIGINT during a blocked request, render}; crash point: none or any "
          "model call of the body, raising an ordinary exception or KeyboardInterrupt; the whole scenario repeated 3 times "
          "for the fd-leak check. quick samples the initial-state product by VERIF_SEED; thorough takes all of it.")
STUBS = ["OS model (termios / tty / fcntl / signal / os / select / time / threading bound into curtsies.input and "
         "curtsies.termhelpers only) - contract model of the real calls; terminal model for the windows",
         "main thread only (signals are only delivered there; the non-main-thread branches are outside)",
         "asynchronous delivery of SIGINT between two bytecodes of curtsies' own __enter__/__exit__ is outside (the model "
         "delivers it inside a blocked select, where a process actually waits)"]

KINDS = ["input", "input_reused", "input_in_input", "fullscreen", "cursoraware", "fullscreen_in_input", "cbreak", "cbreak_termmode", "nonblocking", "termmode"]
BODY_OPS = ["send0", "send_key", "trigger", "ts_trigger", "sigint", "render"]
CASES = []
ENV = {}


def _default_int_handler(signum, frame):
    raise KeyboardInterrupt


def _custom_handler(signum, frame):
    pass


SIGINTS = [_default_int_handler, 0, 1, _custom_handler]       # default_int_handler, SIG_DFL, SIG_IGN, a user function
ATTRS = [None,
         [0x500, 5, 0xbf, 0x8a31, 15, 15, [b"\x03", b"\x1c", b"\x7f", b"\x15", b"\x04", 0, 1] + [b"\x00"] * 25],     # already cbreak-like
         [0x2d02, 4, 0x4bf, 0xa3b, 13, 13, [b"\x03", b"\x1c", b"\x08", b"\x15", b"\x04", 2, 0, b"\x00", b"\x00", b"\x13", b"\x1a"] + [b"\x00"] * 21],
         # ECHO and ICANON already off, but a timed read (VMIN 0, VTIME 2): only the control characters differ from cbreak mode
         [0x500, 5, 0xbf, 0x8a31, 15, 15, [b"\x03", b"\x1c", b"\x7f", b"\x15", b"\x04", 2, 0] + [b"\x00"] * 25]]
FLAGS = [2, 2 | 0o2000, 2 | O_NONBLOCK]
WAKEUPS = [-1, 7]


def _bodies(kind):
    has_input = kind in ("input", "input_reused", "input_in_input", "fullscreen_in_input")
    has_win = kind in ("fullscreen", "cursoraware", "fullscreen_in_input")
    ops = []
    if has_input:
        ops += ["send0", "send_key", "trigger", "ts_trigger", "sigint"]
    if has_win:
        ops += ["render"]
    out = [()]
    for o in ops:
        out.append((o,))
    for a, b in itertools.product(ops, repeat=2):
        if (a, b) in (("send_key", "sigint"), ("render", "render"), ("trigger", "send0"), ("sigint", "send_key"), ("render", "send_key"),
                      ("ts_trigger", "ts_trigger"), ("send0", "render")):
            out.append((a, b))
    return out


def _scenarios(kind, tier, seed, only_body=None):
    import random
    out = []
    bodies = _bodies(kind) if only_body is None else [only_body]
    optsets = list(itertools.product((False, True), repeat=2))
    inits = list(itertools.product(range(len(ATTRS)), range(len(FLAGS)), range(len(SIGINTS)), range(len(WAKEUPS))))
    rnd = random.Random(seed)
    for body in bodies:
        for opts in optsets:
            ii = inits
            if tier == "quick":
                ii = rnd.sample(inits, 6) + [(0, 0, 1, 1), (0, 2, 0, 0), (3, 0, 0, 0)]
            if kind in ("input", "input_reused", "input_in_input", "fullscreen_in_input"):
                # the same context entered and left in a thread that is not the main thread (5th component)
                nm = [i + (True,) for i in (ii if tier != "quick" else rnd.sample(inits, 2) + [(0, 0, 0, 0), (2, 1, 3, 1)])]
                ii = list(ii) + nm
            for init in ii:
                # crash points: every model call the body makes in this configuration (counted by a run without crash)
                LAST["calls"] = 0
                run_scenario(kind, body, opts, init, None)
                n = LAST["calls"] if kind not in ("cbreak", "cbreak_termmode", "nonblocking", "termmode") else 1
                for crash in [None] + [(k, e) for k in range(1, n + 1) for e in ("exc", "kbd")]:
                    out.append((body, opts, init, crash))
    return out


def instances(tier, seed):
    out = []
    T = 300 if tier == "quick" else 1200
    for kind in KINDS:
        bodies = _bodies(kind)
        for bi in range(len(bodies)):
            out.append({"name": "ctx-%s-b%02d-%s" % (kind, bi, "+".join(bodies[bi]) or "empty"), "fn": "scenario", "timeout": T, "cost": len(bodies[bi]) + 1,
                        "params": {"kind": kind, "body": bi, "tier": tier, "seed": seed}})
    return out


def witness_instances(fn, lst, tier):
    return [i for i in lst if i["params"]["kind"] == "input" and i["params"]["body"] == 2][:1]


def _cases():
    kind = P["kind"]
    body = _bodies(kind)[P["body"]]
    return _scenarios(kind, P["tier"], P["seed"], only_body=body)


def setup(params):
    real_os.environ.setdefault("TERM", "xterm-256color")
    CASES[:] = _cases()
    import curtsies.window as cw
    ENV["orig_cbreak"] = cw.Cbreak


# ---- running one scenario on the models (plain Python; also used by the concrete twin) -------------------
LAST = {"calls": 0}


def run_scenario(kind, body, opts, init, crash, repeat=1):
    """returns None if everything is restored, else a description of what is not (LAST['calls'] = model calls of the body)"""
    import curtsies.input as ci
    import curtsies.termhelpers as th
    import curtsies.window as cw
    ai, fi, si, wi = init[:4]
    m = OS(tty_fd=0, attrs=ATTRS[ai], flags=FLAGS[fi], sigint=SIGINTS[si], wakeup=WAKEUPS[wi])
    m.main_thread = not (len(init) > 4 and init[4])
    osmodel.install(m)
    cw.Cbreak = th.Cbreak
    try:
        stream = FakeStream(0)
        term = TermModel(3, 4)
        # something is on the main screen before
        for r in range(2):
            for c in range(4):
                term.grid[r][c] = ("m", ())
        term.cup(2, 0)
        rec = Recorder(term)
        size = [3, 4]

        class In(FakeStream):
            def read(self, n):
                return term.replies.pop(0) if term.replies else ""

        win_in = In(0)
        problems = []
        for rep in range(repeat):
            ENV["toggled"] = False
            before = m.snapshot()
            main_before = [list(r) for r in term.grid]
            m.calls = 0
            m.armed = False
            m.crash_at = None
            if crash is not None:
                m.crash_at = (crash[0], Crash("injected") if crash[1] == "exc" else KeyboardInterrupt())
            m.tty_in = bytearray()
            m.schedule = []
            left_by = None
            nb_violation = []

            def mk_input():
                return ci.Input(in_stream=stream, sigint_event=opts[0], disable_terminal_start_stop=opts[1])

            def mk_win(which):
                if which == "fullscreen":
                    w = cw.FullscreenWindow(out_stream=rec, hide_cursor=opts[0])
                else:
                    w = cw.CursorAwareWindow(out_stream=rec, in_stream=win_in, hide_cursor=opts[0], keep_last_line=opts[1])
                w.t = sized_terminal(rec, size)
                if which == "fullscreen":
                    w.fullscreen_ctx = w.t.fullscreen()
                return w

            def do_body(inp, win):
                m.calls = 0
                m.armed = True
                try:
                    for op in body:
                        if op == "send0":
                            inp.send(0)
                        elif op == "send_key":
                            m.tty_in.extend(b"a")
                            inp.send(0.5)
                        elif op == "trigger":
                            inp.event_trigger(ci.events.SigIntEvent)()
                            inp.send(0)
                        elif op == "ts_trigger":
                            cb = inp.threadsafe_event_trigger(ci.events.SigIntEvent)
                            m.schedule.append((m.clock + 0.1, lambda mm, cb=cb: cb()))
                            inp.send(1)
                        elif op == "sigint":
                            def deliver(mm):
                                if mm.wakeup >= 0 and mm.wakeup in mm.wpipe:
                                    mm.pipes[mm.wpipe[mm.wakeup]].extend(bytes([2]))
                                h = mm.sigint
                                if callable(h):
                                    h(2, None)
                            m.schedule.append((m.clock + 0.1, deliver))
                            inp.send(1)
                        elif op == "render":
                            win.render_to_terminal(["ab", "c", "d"], (0, 1))      # exactly as tall as the terminal
                        if inp is not None and (m.flags[0] & O_NONBLOCK) != (before["flags"] & O_NONBLOCK):
                            nb_violation.append(op)
                finally:
                    m.armed = False
                    LAST["calls"] = m.calls
                    if inp is not None and (m.flags[0] & O_NONBLOCK) != (before["flags"] & O_NONBLOCK):
                        nb_violation.append("after " + "+".join(body))

            try:
                if kind == "input":
                    with mk_input() as inp:
                        do_body(inp, None)
                elif kind == "input_reused":
                    # the SAME Input object is used for two sessions; somebody changes the tty settings in between
                    # (each session must restore what was there when IT was entered)
                    if rep == 0:
                        ENV["reused"] = mk_input()
                    inp = ENV["reused"]
                    with inp:
                        do_body(inp, None)
                    a = m.attrs[0]
                    a[3] ^= 0o10              # toggle ECHO between the sessions
                    a[6][0] = b"\x03" if a[6][0] != b"\x03" else b"\x07"
                    ENV["toggled"] = True
                elif kind == "input_in_input":
                    with mk_input() as outer:
                        with mk_input() as inp:
                            do_body(inp, None)
                        # the outer context is still active: its own wake-up fd must be installed again
                        if m.main_thread and m.wakeup != outer.wakeup_write_fd:
                            problems.append("after leaving the inner Input the outer Input's wake-up fd is not installed (is %r)" % (m.wakeup,))
                elif kind in ("fullscreen", "cursoraware"):
                    with mk_win(kind) as win:
                        do_body(None, win)
                elif kind == "fullscreen_in_input":
                    with mk_input() as inp:
                        with mk_win("fullscreen") as win:
                            do_body(inp, win)
                elif kind == "cbreak":
                    with th.Cbreak(stream):
                        do_body(None, None)
                        m.armed = True
                        m.tick("body")
                        m.armed = False
                elif kind == "cbreak_termmode":
                    with th.Cbreak(stream) as normal:
                        with normal:
                            m.armed = True
                            m.tick("body")
                            m.armed = False
                elif kind == "nonblocking":
                    with th.Nonblocking(stream):
                        m.armed = True
                        m.tick("body")
                        m.armed = False
                elif kind == "termmode":
                    with th.Termmode(stream, ATTRS[1]):
                        m.armed = True
                        m.tick("body")
                        m.armed = False
            except Crash:
                left_by = "exception"
            except KeyboardInterrupt:
                left_by = "KeyboardInterrupt"
            except RuntimeError as ex:
                if str(ex).startswith("model:"):
                    return None          # the scenario would block forever on a real OS: not a case
                raise
            m.armed = False
            if m.crash_skipped:
                return None          # the chosen call belongs to a context manager's own enter/exit step: not a case
            after = m.snapshot()
            if kind == "input_reused" and ENV.pop("toggled", False):
                # undo the deliberate change made after the session, so that `after` is what the session left
                aa = after["attrs"]
                aa[3] ^= 0o10
                aa[6][0] = b"\x03" if aa[6][0] != b"\x03" else b"\x07"
            tag = "" if left_by is None else " (left through %s)" % left_by
            if after["attrs"] != before["attrs"]:
                problems.append("tty attributes not restored%s: %r -> %r" % (tag, before["attrs"][3], after["attrs"][3]))
            if after["flags"] != before["flags"]:
                problems.append("file status flags not restored%s: %o -> %o" % (tag, before["flags"], after["flags"]))
            if after["sigint"] is not before["sigint"] and after["sigint"] != before["sigint"]:
                problems.append("SIGINT handler not restored%s: %r -> %r" % (tag, before["sigint"], after["sigint"]))
            if after["wakeup"] != before["wakeup"]:
                problems.append("signal wake-up fd not restored%s: %r -> %r" % (tag, before["wakeup"], after["wakeup"]))
            if after["fds"] != before["fds"]:
                problems.append("file descriptors leaked%s: %r" % (tag, sorted(after["fds"] - before["fds"])))
            if nb_violation:
                problems.append("stream left in non-blocking mode between requests (%s)" % nb_violation[0])
            if kind in ("fullscreen", "cursoraware", "fullscreen_in_input"):
                if not term.cursor_visible:
                    problems.append("cursor left hidden" + tag)
                if term.alt:
                    problems.append("alternate screen not left" + tag)
                if kind != "cursoraware" and [list(r) for r in term.grid] != main_before:
                    problems.append("main screen content changed" + tag)
            if problems:
                return "; ".join(problems[:3])
        return None
    finally:
        cw.Cbreak = ENV.get("orig_cbreak", cw.Cbreak)
        osmodel.uninstall()


def scenario(s1: int, s2: int) -> bool:
    """
    pre: H.sel_ok(len(CASES), s1, s2)
    post: _
    """
    body, opts, init, crash = H.pick(CASES, s1, s2)
    from crosshair.tracers import NoTracing
    with NoTracing():
        # the scenario is fully realised: the real code runs on concrete values against the models
        res = run_scenario(P["kind"], body, opts, init, crash, repeat=3 if (crash is None or P["kind"] == "input_reused") else 1)
        if res is not None and H.EXCL:
            res = _filter_known(res)
    return verdict(res is None, crash is not None and crash[0] >= 2)


def _filter_known(res):
    parts = [p for p in res.split("; ")]
    keep = []
    for p_ in parts:
        if "C12-wakeup-fd-not-restored" in H.EXCL and ("wake-up fd not restored" in p_ or "outer Input's wake-up fd" in p_):
            continue
        if "C12-threadsafe-trigger-pipe-leak" in H.EXCL and "file descriptors leaked" in p_ and "ts_trigger" in "+".join(_bodies(P["kind"])[P["body"]]):
            continue
        keep.append(p_)
    return "; ".join(keep) if keep else None


# ---------------------------------------------------------------- real-OS replay (pty) where the scenario is expressible
REAL_KINDS = ("input", "input_in_input", "cbreak", "cbreak_termmode", "nonblocking", "termmode")
REAL_OPS = ("send0", "send_key", "trigger", "ts_trigger")


def real_replay(kind, body, opts, init):
    """the same scenario against the real OS on a pty (no crash point, no action inside a blocked select).
    returns a description of what is not restored, None if everything is, or 'n/a' when not expressible"""
    if kind not in REAL_KINDS or any(op not in REAL_OPS for op in body) or (len(init) > 4 and init[4]):
        return "n/a"
    import fcntl
    import signal
    import termios
    import curtsies.input as ci
    import curtsies.termhelpers as th
    from curtsies import events
    ai, fi, si, wi = init[:4]
    master, slave = real_os.openpty()
    stream = real_os.fdopen(slave, "rb+", buffering=0)
    old_handler = signal.getsignal(signal.SIGINT)
    extra_pipe = None
    old_wakeup = None
    try:
        # initial state
        attrs = termios.tcgetattr(slave)
        if ai == 1:
            attrs[3] &= ~(termios.ECHO | termios.ICANON)
        elif ai == 2:
            attrs[3] &= ~termios.ECHO
            attrs[6][termios.VMIN] = 2
        elif ai == 3:
            attrs[3] &= ~(termios.ECHO | termios.ICANON)
            attrs[6][termios.VMIN] = 0
            attrs[6][termios.VTIME] = 2
        termios.tcsetattr(slave, termios.TCSANOW, attrs)
        fl = fcntl.fcntl(slave, fcntl.F_GETFL)
        if fi == 1:
            fl |= real_os.O_APPEND
        elif fi == 2:
            fl |= real_os.O_NONBLOCK
        fcntl.fcntl(slave, fcntl.F_SETFL, fl)
        handlers = [signal.default_int_handler, signal.SIG_DFL, signal.SIG_IGN, _custom_handler]
        signal.signal(signal.SIGINT, handlers[si])
        if wi == 1:
            extra_pipe = real_os.pipe()
            real_os.set_blocking(extra_pipe[1], False)
            old_wakeup = signal.set_wakeup_fd(extra_pipe[1], warn_on_full_buffer=False)
        else:
            old_wakeup = signal.set_wakeup_fd(-1)

        def snap():
            w = signal.set_wakeup_fd(-1)
            signal.set_wakeup_fd(w, warn_on_full_buffer=False) if w != -1 else None
            return {"attrs": termios.tcgetattr(slave), "flags": fcntl.fcntl(slave, fcntl.F_GETFL), "sigint": signal.getsignal(signal.SIGINT),
                    "wakeup": w, "fds": set(real_os.listdir("/proc/self/fd"))}

        problems = []
        for rep in range(3):
            before = snap()
            nb = []

            def mk_input():
                return ci.Input(in_stream=stream, sigint_event=opts[0], disable_terminal_start_stop=opts[1])

            def do_body(inp):
                for op in body:
                    if op == "send0":
                        inp.send(0)
                    elif op == "send_key":
                        real_os.write(master, b"a")
                        inp.send(0.5)
                    elif op == "trigger":
                        inp.event_trigger(events.SigIntEvent)()
                        inp.send(0)
                    elif op == "ts_trigger":
                        cb = inp.threadsafe_event_trigger(events.SigIntEvent)
                        cb()
                        inp.send(1)
                    if (fcntl.fcntl(slave, fcntl.F_GETFL) & real_os.O_NONBLOCK) != (before["flags"] & real_os.O_NONBLOCK):
                        nb.append(op)

            if kind == "input":
                with mk_input() as inp:
                    do_body(inp)
            elif kind == "input_in_input":
                with mk_input() as outer:
                    with mk_input() as inp:
                        do_body(inp)
                    w = signal.set_wakeup_fd(-1)
                    if w != -1:
                        signal.set_wakeup_fd(w, warn_on_full_buffer=False)
                    if w != outer.wakeup_write_fd:
                        problems.append("after leaving the inner Input the outer Input's wake-up fd is not installed (is %r)" % (w,))
            elif kind == "cbreak":
                with th.Cbreak(stream):
                    pass
            elif kind == "cbreak_termmode":
                with th.Cbreak(stream) as normal:
                    with normal:
                        pass
            elif kind == "nonblocking":
                with th.Nonblocking(stream):
                    pass
            elif kind == "termmode":
                with th.Termmode(stream, termios.tcgetattr(slave)):
                    pass
            after = snap()
            if after["attrs"] != before["attrs"]:
                problems.append("tty attributes not restored")
            if after["flags"] != before["flags"]:
                problems.append("file status flags not restored: %o -> %o" % (before["flags"], after["flags"]))
            if after["sigint"] is not before["sigint"] and after["sigint"] != before["sigint"]:
                problems.append("SIGINT handler not restored: %r -> %r" % (before["sigint"], after["sigint"]))
            if after["wakeup"] != before["wakeup"]:
                problems.append("signal wake-up fd not restored: %r -> %r" % (before["wakeup"], after["wakeup"]))
            if after["fds"] != before["fds"]:
                problems.append("file descriptors leaked: %r" % sorted(after["fds"] - before["fds"]))
            if nb:
                problems.append("stream left in non-blocking mode between requests (%s)" % nb[0])
            if problems:
                break
        return "; ".join(problems[:3]) if problems else None
    finally:
        signal.signal(signal.SIGINT, old_handler)
        try:
            signal.set_wakeup_fd(old_wakeup if old_wakeup is not None else -1)
        except (ValueError, OSError):
            signal.set_wakeup_fd(-1)
        for fd in (extra_pipe or ()):
            try:
                real_os.close(fd)
            except OSError:
                pass
        try:
            stream.close()
        except OSError:
            pass
        try:
            real_os.close(master)
        except OSError:
            pass


def _kinds_of(res):
    """the kinds of problem named in a result string (for comparing model and real OS)"""
    keys = ("tty attributes", "status flags", "SIGINT handler", "wake-up fd", "descriptors leaked", "non-blocking", "outer Input")
    return sorted(k for k in keys if res and k in res)


# ---------------------------------------------------------------- concrete twin
def concrete(fn, params, args):
    P.clear()
    P.update(params)
    import curtsies.window as cw
    ENV["orig_cbreak"] = cw.Cbreak
    if fn == "scenario_explicit":
        body, opts, init, crash = tuple(args[0]), tuple(args[1]), tuple(args[2]), (tuple(args[3]) if args[3] else None)
    else:
        body, opts, init, crash = H.pick_concrete(_cases(), args[0], args[1])
    ENV["orig_cbreak"] = cw.Cbreak
    res = run_scenario(params["kind"], body, opts, init, crash, repeat=3 if (crash is None or params["kind"] == "input_reused") else 1)
    real = "n/a"
    if crash is None:
        real = real_replay(params["kind"], body, opts, init)
        if real != "n/a" and _kinds_of(real) != _kinds_of(res):
            # the OS model and the real OS disagree: a modelling artefact, never reported as a violation
            return {"ok": None, "harness_error": True, "note": "OS model says %r, real pty says %r" % (res, real)}
    region = None
    if res is not None:
        if "wake-up fd" in res and all(("wake-up fd" in p_) for p_ in res.split("; ")):
            region = "C12-wakeup-fd-not-restored"
        elif "file descriptors leaked" in res and "ts_trigger" in body and all(("leaked" in p_ or "wake-up fd" in p_) for p_ in res.split("; ")):
            region = "C12-threadsafe-trigger-pipe-leak"
    desc = "%s(%s) initial(attrs#%d, flags %o, SIGINT %r, wake-up fd %d) body %r crash %r" % (
        params["kind"], ", ".join("%s=%r" % kv for kv in zip(("sigint_event/hide_cursor", "disable_start_stop/keep_last_line"), opts)),
        init[0], FLAGS[init[1]], SIGINTS[init[2]], WAKEUPS[init[3]], body, crash) + (" [in a non-main thread]" if len(init) > 4 and init[4] else "")
    return {"ok": res is None, "observed": res, "real_os_replay": real, "expected": "everything the context changed is restored", "call": desc, "known_region": region}


def region_of(fn, params, args):
    return concrete(fn, params, args).get("known_region")
