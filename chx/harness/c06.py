"""C06 - indexing, slicing, +, * and join act like str and carry formatting along.

Real code: FmtStr.__getitem__, normalize_slice, __add__, __radd__, __mul__, join, __len__, s,
Chunk.__init__, fmtstr("") / from_str / copy_with_new_atts (join of plain str items).
Domain: SegStr; run lengths, slice bounds, indices and the compared position are unbounded ints.
"""
import z3

from chx import hsupport as H
from chx.hsupport import P, verdict, flat_at, same, sbool
from chx.domains.segstr import SegStr, zint, src_text, install_space_mul, OUT
from crosshair.tracers import NoTracing

PROP = "C06"
FUNCTIONS = ["FmtStr.__getitem__", "normalize_slice", "FmtStr.__add__", "FmtStr.__radd__", "FmtStr.__mul__",
             "FmtStr.join", "FmtStr.__len__", "FmtStr.s", "Chunk.__init__", "fmtstr", "FmtStr.from_str"]
BOUNDS = ("runs per FmtStr fixed per instance (slice/index: K 0..4 quick, 0..6 thorough; +: K<=3 each; join: <=3 items "
          "of <=2 runs, separator <=2 runs; *: count 0..4 quick / 0..6 thorough); run lengths >= 0 (empty runs "
          "included), slice bounds / indices in all of Z plus None, compared position: unbounded integers")
STUBS = ["SegStr text domain (characters abstract, lengths symbolic); position-function oracle",
         "text rendered from a symbolic int (only the IndexError message here) is a placeholder"]

ATTS = [{"fg": 31}, {"bold": True}, {"bg": 44}, {"underline": True}, {"fg": 32, "bold": True}, {"invert": True}]
ATTS_SHARED = [{"fg": 31}, {"fg": 31}, {"bg": 44}, {"bg": 44}, {"fg": 31}, {"fg": 31}]
G_ATTS = [{"fg": 35}, {"bg": 41, "blink": True}, {"dark": True}]
SEP_ATTS = [{"fg": 36}, {"italic": True}]


def instances(tier, seed):
    out = []
    T = 90 if tier == "quick" else 300
    ks = range(0, 5) if tier == "quick" else range(0, 7)
    for K in ks:
        for mode in ("ab", "a_", "_b", "__"):
            layouts = ["distinct"] if (tier == "quick" and K != 2) else ["distinct", "shared"]
            for layout in layouts:
                # split big instances by the sign of the bounds (union = everything)
                signs = [None]
                if K >= 3 and mode == "ab":
                    signs = ["++", "+-", "-+", "--"]
                elif K >= 4 and mode in ("a_", "_b"):
                    signs = ["+", "-"]
                for sg in signs:
                    out.append({"name": "slice-K%d-%s-%s%s" % (K, mode, layout, "" if sg is None else "-" + sg),
                                "fn": "slice_", "timeout": T,
                                "params": {"K": K, "mode": mode, "layout": layout, "sign": sg}})
        for sg in (["any"] if K < 3 else ["+", "-"]):
            out.append({"name": "index-K%d-%s" % (K, sg), "fn": "index", "timeout": T,
                        "params": {"K": K, "layout": "distinct", "sign": sg}})
    for K in range(0, 4):
        for other in ("fmt0", "fmt1", "fmt2", "str", "rstr"):
            out.append({"name": "add-K%d-%s" % (K, other), "fn": "add", "timeout": T,
                        "params": {"K": K, "other": other, "layout": "distinct"}})
    for K in range(0, 3):
        out.append({"name": "mul-K%d" % K, "fn": "mul", "timeout": T,
                    "params": {"K": K, "layout": "distinct", "maxk": 4 if tier == "quick" else 6}})
    kinds = ["f1", "f2", "s", "f0"]
    import itertools
    for nsep in (0, 1, 2):
        for nitems in (0, 1, 2, 3):
            combos = list(itertools.product(kinds, repeat=nitems))
            if tier == "quick" and nitems == 3:
                combos = [c for c in combos if c in (("f1", "s", "f2"), ("s", "s", "s"), ("f2", "f0", "s"), ("f1", "f1", "f1"))]
            if tier == "quick" and nitems == 2 and nsep != 1:
                combos = [c for c in combos if c in (("f1", "s"), ("s", "f2"), ("f0", "f1"))]
            for c in combos:
                out.append({"name": "join-sep%d-%s" % (nsep, "+".join(c) or "none"), "fn": "join", "timeout": T,
                            "params": {"nsep": nsep, "items": list(c)}})
    # history twins: the operands were rendered / measured before (all memoised views filled in)
    warm = []
    for i in out:
        if tier == "quick" and i["fn"] == "slice_" and (i["params"]["K"] > 2 or i["params"]["layout"] != "distinct"):
            continue
        if tier == "quick" and i["fn"] == "join" and len(i["params"]["items"]) > 2:
            continue
        warm.append(dict(i, name=i["name"] + "-warm", params=dict(i["params"], warm=True)))
    return out + warm


def setup(params):
    install_space_mul()
    H.abstract_int_text()   # the IndexError message formats the (symbolic) index


def selftest(rnd):
    from chx.selftests import segstr_selftest
    return segstr_selftest(rnd, 200)


def _mk(ns, K, layout, mk_text, base=0, atts=None):
    from curtsies.formatstring import FmtStr, Chunk
    atts = atts or (ATTS if layout == "distinct" else ATTS_SHARED)
    f = FmtStr(*[Chunk(mk_text(base + i, ns[i]), atts[i]) for i in range(K)])
    if P.get("warm"):
        H.warm(f)
    return f


def _sign_ok(mode, sg, a, b):
    if sg is None:
        return True
    if mode == "ab":
        return (a >= 0) == (sg[0] == "+") and (b >= 0) == (sg[1] == "+")
    v = a if mode == "a_" else b
    return (v >= 0) == (sg == "+")


def _norm(i, ln):
    return z3.If(i < 0, z3.If(i + ln < 0, z3.IntVal(0), i + ln), z3.If(i > ln, ln, i))


def slice_(n0: int, n1: int, n2: int, n3: int, n4: int, n5: int, a: int, b: int, p: int) -> bool:
    """
    pre: n0 >= 0 and n1 >= 0 and n2 >= 0 and n3 >= 0 and n4 >= 0 and n5 >= 0
    pre: _sign_ok(P["mode"], P["sign"], a, b)
    post: _
    """
    ns = [n0, n1, n2, n3, n4, n5]
    K = P["K"]
    f = _mk(ns, K, P["layout"], SegStr.source)
    before = list(f.chunks)
    mode = P["mode"]
    sl = {"ab": slice(a, b), "a_": slice(a, None), "_b": slice(None, b), "__": slice(None, None)}[mode]
    r = f[sl]
    ln_r = len(r)
    s_r = r.s
    out_r = str(r)
    with NoTracing():
        tot = z3.IntVal(0)
        for i in range(K):
            tot = tot + zint(ns[i])
        A = _norm(zint(a), tot) if mode in ("ab", "a_") else z3.IntVal(0)
        B = _norm(zint(b), tot) if mode in ("ab", "_b") else tot
        B = H.zmax(A, B)
        Pz = zint(p)
        res = flat_at(r, Pz)
        exp = flat_at(f, Pz + A)
        inr = z3.And(Pz >= 0, Pz < B - A)
        ok = z3.And(res[3] == B - A, zint(ln_r) == B - A, z3.Implies(inr, same(res, exp)), H.render_term(r, out_r, Pz))
        # .s of the result is the text of its runs (memoised view)
        if isinstance(s_r, SegStr):
            sa, sb = s_r.atom_at(Pz)
            ok = z3.And(ok, s_r._zlen() == B - A, z3.Implies(inr, z3.And(sa == res[0], sb == res[1])))
        elif not (isinstance(s_r, str) and s_r == ""):
            return verdict(False)
        else:
            ok = z3.And(ok, B - A == 0)
        if len(f.chunks) != K or any(x is not y for x, y in zip(f.chunks, before)):
            return verdict(False)
        nontrivial = z3.And(inr, B - A >= 2, tot >= K + 2) if K else z3.BoolVal(True)
    return verdict(sbool(ok), sbool(nontrivial))


def index(n0: int, n1: int, n2: int, n3: int, n4: int, n5: int, i: int) -> bool:
    """
    pre: n0 >= 0 and n1 >= 0 and n2 >= 0 and n3 >= 0 and n4 >= 0 and n5 >= 0
    pre: P["sign"] == "any" or (i >= 0) == (P["sign"] == "+")
    post: _
    """
    ns = [n0, n1, n2, n3, n4, n5]
    K = P["K"]
    f = _mk(ns, K, P["layout"], SegStr.source)
    tot = 0
    for k in range(K):
        tot = tot + ns[k]
    try:
        r = f[i]
        raised = False
    except IndexError:
        raised = True
    inrange = -tot <= i < tot
    if raised:
        return verdict(not inrange, False)
    if not inrange:
        return verdict(False)
    with NoTracing():
        totz = zint(tot)
        iz = zint(i)
        j = z3.If(iz < 0, iz + totz, iz)
        res = flat_at(r, z3.IntVal(0))
        exp = flat_at(f, j)
        ok = z3.And(res[3] == 1, same(res, exp))
    return verdict(sbool(ok), sbool(z3.And(totz >= 3, j >= 1)))


def add(n0: int, n1: int, n2: int, m0: int, m1: int, p: int) -> bool:
    """
    pre: n0 >= 0 and n1 >= 0 and n2 >= 0 and m0 >= 0 and m1 >= 0
    post: _
    """
    from curtsies.formatstring import FmtStr, Chunk
    ns = [n0, n1, n2]
    ms = [m0, m1]
    K = P["K"]
    f = _mk(ns, K, "distinct", SegStr.source)
    before = list(f.chunks)
    other = P["other"]
    if other in ("str", "rstr"):
        g = SegStr.source(10, m0)
        gf = FmtStr(Chunk(g))
    else:
        k2 = {"fmt0": 0, "fmt1": 1, "fmt2": 2}[other]
        g = _mk(ms, k2, "distinct", SegStr.source, base=10, atts=G_ATTS)
        gf = g
        gbefore = list(g.chunks)
    if other == "rstr":
        r = g + f
        first, second = gf, f
    else:
        r = f + g
        first, second = f, gf
    ln_r = len(r)
    obs = H.observe(r)
    out_r = str(r)
    with NoTracing():
        Pz = zint(p)
        l1 = flat_at(first, Pz)[3]
        l2 = flat_at(second, Pz)[3]
        res = flat_at(r, Pz)
        ok = z3.And(res[3] == l1 + l2, zint(ln_r) == l1 + l2, H.views_term(obs, res, Pz, l1 + l2), H.render_term(r, out_r, Pz),
                    z3.Implies(z3.And(Pz >= 0, Pz < l1 + l2),
                               z3.If(Pz < l1, same(res, flat_at(first, Pz)), same(res, flat_at(second, Pz - l1)))))
        if len(f.chunks) != K or any(x is not y for x, y in zip(f.chunks, before)):
            return verdict(False)
        if other.startswith("fmt") and (len(g.chunks) != len(gbefore) or any(x is not y for x, y in zip(g.chunks, gbefore))):
            return verdict(False)
        nontrivial = z3.And(Pz >= l1, Pz < l1 + l2, l1 >= 1)
    return verdict(sbool(ok), sbool(nontrivial))


def mul(n0: int, n1: int, k: int, p: int) -> bool:
    """
    pre: n0 >= 0 and n1 >= 0 and 0 <= k <= P["maxk"]
    post: _
    """
    ns = [n0, n1]
    K = P["K"]
    f = _mk(ns, K, "distinct", SegStr.source)
    r = f * k
    ln_r = len(r)
    obs = H.observe(r)
    out_r = str(r)
    with NoTracing():
        Pz = zint(p)
        kz = zint(k)
        l1 = flat_at(f, Pz)[3]
        res = flat_at(r, Pz)
        # p = q * l1 + rem: enumerate the (bounded) repeat index instead of using div/mod
        body = z3.BoolVal(True)
        for q in range(0, P["maxk"]):
            body = z3.And(body, z3.Implies(z3.And(Pz >= q * l1, Pz < (q + 1) * l1, q < kz), same(res, flat_at(f, Pz - q * l1))))
        ok = z3.And(res[3] == kz * l1, zint(ln_r) == kz * l1, H.views_term(obs, res, Pz, kz * l1), H.render_term(r, out_r, Pz), z3.Implies(z3.And(Pz >= 0, Pz < kz * l1), body))
        nontrivial = z3.And(kz >= 2, Pz >= l1, Pz < kz * l1)
    return verdict(sbool(ok), sbool(nontrivial))


def _items(ms, mk_text):
    from curtsies.formatstring import FmtStr, Chunk
    items = []
    views = []
    j = 0
    for idx, kind in enumerate(P["items"]):
        base = 20 + 2 * idx
        if kind == "s":
            t = mk_text(base, ms[j])
            items.append(t)
            views.append(FmtStr(Chunk(t)))
            j += 1
        else:
            k = {"f0": 0, "f1": 1, "f2": 2}[kind]
            it = FmtStr(*[Chunk(mk_text(base + q, ms[j + q]), G_ATTS[q + (idx % 2)]) for q in range(k)])
            if P.get("warm"):
                H.warm(it)
            items.append(it)
            views.append(it)
            j += k
    return items, views


def join(s0: int, s1: int, m0: int, m1: int, m2: int, m3: int, m4: int, m5: int, p: int) -> bool:
    """
    pre: s0 >= 0 and s1 >= 0 and m0 >= 0 and m1 >= 0 and m2 >= 0 and m3 >= 0 and m4 >= 0 and m5 >= 0
    post: _
    """
    ms = [m0, m1, m2, m3, m4, m5]
    sep = _mk([s0, s1], P["nsep"], "distinct", SegStr.source, base=40, atts=SEP_ATTS)
    sep_before = list(sep.chunks)
    items, views = _items(ms, SegStr.source)
    views_before = [list(v.chunks) for v in views]
    r = sep.join(items)
    ln_r = len(r)
    obs = H.observe(r)
    out_r = str(r)
    with NoTracing():
        Pz = zint(p)
        seq = []
        for i, v in enumerate(views):
            if i:
                seq.append(sep)
            seq.append(v)
        res = flat_at(r, Pz)
        off = z3.IntVal(0)
        body = z3.BoolVal(True)
        for part in seq:
            ln = flat_at(part, Pz)[3]
            body = z3.And(body, z3.Implies(z3.And(Pz >= off, Pz < off + ln), same(res, flat_at(part, Pz - off))))
            off = off + ln
        ok = z3.And(res[3] == off, zint(ln_r) == off, H.views_term(obs, res, Pz, off), H.render_term(r, out_r, Pz), z3.Implies(z3.And(Pz >= 0, Pz < off), body))
        if len(sep.chunks) != len(sep_before) or any(x is not y for x, y in zip(sep.chunks, sep_before)):
            return verdict(False)
        for v, b in zip(views, views_before):       # the joined items are not touched either
            if len(v.chunks) != len(b) or any(x is not y for x, y in zip(v.chunks, b)):
                return verdict(False)
        nontrivial = z3.And(Pz >= 1, Pz < off, off >= len(seq))
    return verdict(sbool(ok), sbool(nontrivial))


# ---------------------------------------------------------------- concrete twin (plain CPython)
def concrete(fn, params, args):
    from chx.common import cells, fmt_cells, render_matches
    from curtsies.formatstring import FmtStr
    P.clear()
    P.update(params)
    if max(abs(x) for x in args if isinstance(x, int)) > 5000:
        return {"ok": None, "note": "counterexample too large to replay"}
    try:
        if fn == "slice_":
            ns, (a, b, p) = list(args[:6]), args[6:9]
            f = _mk(ns, params["K"], params["layout"], src_text)
            before = cells(f)
            mode = params["mode"]
            sl = {"ab": slice(a, b), "a_": slice(a, None), "_b": slice(None, b), "__": slice(None, None)}[mode]
            r = f[sl]
            want = before[sl]
            got = cells(r)
            ok = got == want and len(r) == len(want) and r.s == "".join(c for c, _ in want) and cells(f) == before
            if ok and not render_matches(r):
                return {"ok": False, "observed": "str(result) = %r" % (str(r),), "expected": "a string displaying " + fmt_cells(got), "call": "%r[%r]" % (f, sl)}
            return {"ok": ok, "observed": fmt_cells(got), "expected": fmt_cells(want), "call": "%r[%r]" % (f, sl)}
        if fn == "index":
            ns, i = list(args[:6]), args[6]
            f = _mk(ns, params["K"], params["layout"], src_text)
            before = cells(f)
            try:
                want = [before[i]]
            except IndexError:
                want = "IndexError"
            try:
                got = cells(f[i])
            except IndexError:
                got = "IndexError"
            return {"ok": got == want, "observed": got if isinstance(got, str) else fmt_cells(got),
                    "expected": want if isinstance(want, str) else fmt_cells(want), "call": "%r[%r]" % (f, i)}
        if fn == "add":
            from curtsies.formatstring import Chunk
            ns, ms = list(args[:3]), list(args[3:5])
            f = _mk(ns, params["K"], "distinct", src_text)
            other = params["other"]
            if other in ("str", "rstr"):
                g = src_text(10, ms[0])
            else:
                g = _mk(ms, {"fmt0": 0, "fmt1": 1, "fmt2": 2}[other], "distinct", src_text, base=10, atts=G_ATTS)
            bf, bg = cells(f), cells(g)
            r = (g + f) if other == "rstr" else (f + g)
            want = (bg + bf) if other == "rstr" else (bf + bg)
            got = cells(r)
            ok = got == want and len(r) == len(want) and cells(f) == bf and cells(g) == bg and isinstance(r, FmtStr)
            ok = ok and r.s == "".join(c for c, _ in want) and render_matches(r)
            return {"ok": ok, "observed": fmt_cells(got) + " .s=%r str=%r" % (r.s, str(r)), "expected": fmt_cells(want),
                    "call": ("%r + %r" % ((g, f) if other == "rstr" else (f, g))) + (" [operands rendered before]" if params.get("warm") else "")}
        if fn == "mul":
            ns, k = list(args[:2]), args[2]
            f = _mk(ns, params["K"], "distinct", src_text)
            bf = cells(f)
            r = f * k
            want = bf * k
            got = cells(r)
            return {"ok": got == want and len(r) == len(want) and cells(f) == bf and r.s == "".join(c for c, _ in want) and render_matches(r),
                    "observed": fmt_cells(got) + " .s=%r str=%r" % (r.s, str(r)), "expected": fmt_cells(want), "call": "%r * %r" % (f, k)}
        if fn == "join":
            ss, ms = list(args[:2]), list(args[2:8])
            sep = _mk(ss, params["nsep"], "distinct", src_text, base=40, atts=SEP_ATTS)
            items, views = _items(ms, src_text)
            bs = cells(sep)
            want = []
            for i, v in enumerate(views):
                if i:
                    want += bs
                want += cells(v)
            vb = [cells(v) for v in views]
            r = sep.join(items)
            if [cells(v) for v in views] != vb:
                return {"ok": False, "observed": "items after the join: %r" % (items,), "expected": "items unchanged", "call": "%r.join(...)" % (sep,)}
            got = cells(r)
            return {"ok": got == want and len(r) == len(want) and cells(sep) == bs and r.s == "".join(c for c, _ in want) and render_matches(r),
                    "observed": fmt_cells(got) + " .s=%r str=%r" % (r.s, str(r)), "expected": fmt_cells(want), "call": "%r.join(%r)" % (sep, items)}
    except Exception as ex:
        return {"ok": False, "observed": "raised %r" % (ex,), "expected": "str-like behaviour", "call": "%s%r" % (fn, tuple(args))}
    raise KeyError(fn)
