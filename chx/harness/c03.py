"""C03 - key decoding splits any byte stream losslessly into correctly named keys
(and C20a - the three naming modes cut the stream at the same places).

Real code: events.get_key, _key_name, decodable, could_be_unfinished_char,
could_be_unfinished_utf8 and the LIVE tables CURTSIES_NAMES / CURSES_NAMES /
KEYMAP_PREFIXES / MAX_KEYPRESS_SIZE (wrapped in SymTable, contents untouched).
Symbolic: n bytes b0..b(n-1), each 0..255 - all 256**n strings; driven incrementally exactly
as Input.find_key does (every proper prefix must have returned None with full=False).
"""
import z3

from chx import hsupport as H
from chx.hsupport import P, verdict, sbool
from chx.domains.symtable import SymTable, Name, zi, index_by_len, member_term
from crosshair.tracers import NoTracing

PROP = "C03"
FUNCTIONS = ["events.get_key", "events._key_name", "events.decodable", "events.could_be_unfinished_char",
             "events.could_be_unfinished_utf8", "events.CURTSIES_NAMES/CURSES_NAMES/KEYMAP_PREFIXES/MAX_KEYPRESS_SIZE (live data)"]
BOUNDS = ("byte strings of length n = 1..MAX_KEYPRESS_SIZE+1 (8 on this tree), every byte 0..255, encodings utf-8 / ascii / "
          "latin-1, full in {False, True}, all three naming modes on every path; quick: utf-8 n <= 4 unrestricted + n = 5..8 "
          "restricted to members/prefixes of the tables, ascii and latin-1 n <= 8; thorough: everything unrestricted")
STUBS = ["SymTable: table membership as one z3 disjunction built from the live table data",
         "CrossHair's models of the ascii / latin-1 / utf-8 codecs (counterexamples are replayed on the real codecs)",
         "independent oracle predicates: UTF-8 well-formedness (Unicode Table 3-7), proper-prefix sets and unit-stream "
         "validity recomputed from the raw table data"]

ENCODINGS = {"utf8": "utf8", "ascii": "ascii", "latin1": "latin-1"}
CLASSES = {"esc": (27, 27), "ascii": (0, 127), "cont": (128, 191), "lead2": (192, 223), "lead3": (224, 239), "lead4": (240, 255)}
RAW = {}


def _maxlen():
    from curtsies import events
    return events.MAX_KEYPRESS_SIZE


def instances(tier, seed):
    out = []
    MAX = _maxlen()
    T = 150 if tier == "quick" else 900
    for enc in ("utf8", "ascii", "latin1"):
        for n in range(1, MAX + 2):
            for full in (False, True):
                if n == MAX + 1 and full:
                    continue
                restrict = None
                if tier == "quick" and enc == "utf8" and 5 <= n <= MAX:
                    restrict = "tables"
                classes = ["esc", "ascii", "cont", "lead2", "lead3", "lead4"] if n >= 2 else ["any"]
                if restrict:
                    classes = ["esc"]
                for cls in classes:
                    if enc != "utf8" and n >= 3 and cls != "esc":
                        continue     # those first bytes never leave a pending state of length >= 2 outside utf-8 (checked at n = 2)
                    if enc == "utf8" and n >= 3 and cls in ("ascii", "cont") and tier == "quick":
                        continue     # same under utf-8 for ASCII / continuation first bytes (checked at n = 2; thorough re-checks)
                    cost = 10 if (enc == "utf8" and cls in ("lead2", "lead3", "lead4", "any")) else (5 if n == 1 else 1)
                    out.append({"name": "%s-n%d-%s-%s%s" % (enc, n, "full" if full else "more", cls, "-tables" if restrict else ""),
                                "fn": "decode", "timeout": T, "cost": cost,
                                "params": {"enc": enc, "n": n, "full": full, "cls": cls, "restrict": restrict}})
    # history: the same bytes were decoded under ANOTHER encoding (all three naming modes) earlier in the same process;
    # the result under this encoding must not depend on that
    for enc in ("utf8", "ascii", "latin1"):
        for pre in ("utf8", "ascii", "latin1"):
            if pre == enc:
                continue
            for n in (1, 2) if tier == "quick" else (1, 2, 3):
                for full in (False, True):
                    if tier == "quick" and not ((n == 1 and full) or (n == 2 and not full and "ascii" not in (enc, pre))):
                        continue
                    out.append({"name": "%s-after-%s-n%d-%s" % (enc, pre, n, "full" if full else "more"), "fn": "decode", "timeout": T,
                                "cost": 5, "params": {"enc": enc, "n": n, "full": full, "cls": "any", "restrict": None, "pre_enc": pre}})
    return out


def witness_instances(fn, lst, tier):
    lst = [i for i in lst if not i["params"].get("pre_enc")]
    pick = [i for i in lst if i["params"]["n"] in (2, 3) and i["params"]["cls"] in ("esc", "lead2", "lead3")
            and i["params"]["enc"] == "utf8" and (i["params"]["cls"] == "esc" or i["params"]["n"] == (2 if i["params"]["cls"] == "lead2" else 3))]
    return pick[:3] if tier == "quick" else pick


def _load_raw():
    from curtsies import events
    if RAW:
        return
    cu = events.CURTSIES_NAMES
    cs = events.CURSES_NAMES
    pf = events.KEYMAP_PREFIXES
    RAW["curtsies"] = dict(cu.data if isinstance(cu, SymTable) else cu)
    RAW["curses"] = dict(cs.data if isinstance(cs, SymTable) else cs)
    RAW["live_prefixes"] = set(pf.data if isinstance(pf, SymTable) else pf)
    keys = set(RAW["curtsies"]) | set(RAW["curses"])
    RAW["keys"] = keys
    RAW["ascii_keys"] = {k for k in keys if all(b < 0x80 for b in k)}
    RAW["pfx_any"] = {k[:i] for k in keys for i in range(1, len(k))}
    RAW["pfx_ascii"] = {k[:i] for k in RAW["ascii_keys"] for i in range(1, len(k))}
    for name in ("curtsies", "curses", "keys", "ascii_keys", "pfx_any", "pfx_ascii"):
        RAW["bylen_" + name] = index_by_len(RAW[name])
    RAW["max"] = events.MAX_KEYPRESS_SIZE


def setup(params):
    from curtsies import events
    _load_raw()
    events.CURTSIES_NAMES = SymTable(events.CURTSIES_NAMES, "curtsies")
    events.CURSES_NAMES = SymTable(events.CURSES_NAMES, "curses")
    events.KEYMAP_PREFIXES = SymTable(events.KEYMAP_PREFIXES, "prefixes")


# ---- oracle predicates (z3 terms over byte terms) ----------------------------------------
def _rng(b, lo, hi):
    return z3.And(b >= lo, b <= hi)


def wf1(enc, B):
    """B (list of byte terms) is exactly one well-formed encoded character"""
    n = len(B)
    if enc == "ascii":
        return _rng(B[0], 0, 0x7F) if n == 1 else z3.BoolVal(False)
    if enc == "latin1":
        return z3.BoolVal(n == 1)
    c = lambda b: _rng(b, 0x80, 0xBF)   # noqa
    if n == 1:
        return _rng(B[0], 0, 0x7F)
    if n == 2:
        return z3.And(_rng(B[0], 0xC2, 0xDF), c(B[1]))
    if n == 3:
        return z3.Or(z3.And(B[0] == 0xE0, _rng(B[1], 0xA0, 0xBF), c(B[2])),
                     z3.And(_rng(B[0], 0xE1, 0xEC), c(B[1]), c(B[2])),
                     z3.And(B[0] == 0xED, _rng(B[1], 0x80, 0x9F), c(B[2])),
                     z3.And(_rng(B[0], 0xEE, 0xEF), c(B[1]), c(B[2])))
    if n == 4:
        return z3.Or(z3.And(B[0] == 0xF0, _rng(B[1], 0x90, 0xBF), c(B[2]), c(B[3])),
                     z3.And(_rng(B[0], 0xF1, 0xF3), c(B[1]), c(B[2]), c(B[3])),
                     z3.And(B[0] == 0xF4, _rng(B[1], 0x80, 0x8F), c(B[2]), c(B[3])))
    return z3.BoolVal(False)


def ppc(enc, B):
    """B is a proper prefix of a well-formed multi-byte character"""
    if enc != "utf8":
        return z3.BoolVal(False)
    n = len(B)
    c = lambda b: _rng(b, 0x80, 0xBF)   # noqa
    if n == 1:
        return _rng(B[0], 0xC2, 0xF4)
    second = z3.Or(z3.And(B[0] == 0xE0, _rng(B[1], 0xA0, 0xBF)), z3.And(_rng(B[0], 0xE1, 0xEC), c(B[1])),
                   z3.And(B[0] == 0xED, _rng(B[1], 0x80, 0x9F)), z3.And(_rng(B[0], 0xEE, 0xEF), c(B[1])),
                   z3.And(B[0] == 0xF0, _rng(B[1], 0x90, 0xBF)), z3.And(_rng(B[0], 0xF1, 0xF3), c(B[1])),
                   z3.And(B[0] == 0xF4, _rng(B[1], 0x80, 0x8F))) if n >= 2 else None
    if n == 2:
        return second
    if n == 3:
        return z3.And(_rng(B[0], 0xF0, 0xF4), second, c(B[2]))
    return z3.BoolVal(False)


def codepoint(enc, B):
    n = len(B)
    if enc != "utf8" or n == 1:
        return B[0]
    if n == 2:
        return (B[0] - 0xC0) * 64 + (B[1] - 0x80)
    if n == 3:
        return (B[0] - 0xE0) * 4096 + (B[1] - 0x80) * 64 + (B[2] - 0x80)
    return (B[0] - 0xF0) * 262144 + (B[1] - 0x80) * 4096 + (B[2] - 0x80) * 64 + (B[3] - 0x80)


def tab(name, B):
    return member_term(RAW["bylen_" + name], B)


def valid_stream_terms(enc, B, full):
    """V[i]: B[:i] is a concatenation of complete units (ASCII-only table sequences, well-formed characters).
    returns (VP, COMPLETE): B is a prefix of a valid stream / is a complete valid stream (a single 8-bit Meta byte
    may end the stream when full)"""
    n = len(B)
    V = [z3.BoolVal(True)]
    for j in range(1, n + 1):
        alts = []
        for i in range(0, j):
            piece = B[i:j]
            if len(piece) > max(RAW["max"], 4):
                continue
            alts.append(z3.And(V[i], z3.Or(tab("ascii_keys", piece), wf1(enc, piece))))
        V.append(z3.Or(*alts) if alts else z3.BoolVal(False))
    meta_end = z3.And(z3.BoolVal(bool(full)), V[n - 1], B[n - 1] >= 0x80, tab("keys", [B[n - 1]]))
    complete = z3.Or(V[n], meta_end)
    tails = []
    for i in range(0, n):
        tail = B[i:]
        tails.append(z3.And(V[i], z3.Or(tab("pfx_ascii", tail), ppc(enc, tail))))
    vp = z3.Or(complete, *tails)
    return vp, complete


_TERM_CACHE = {}


def _terms(e, n, full, B):
    """the byte-level predicates, built once per worker over placeholder constants and instantiated per path"""
    key = (e, n, bool(full))
    if key not in _TERM_CACHE:
        X = [z3.Int("X%d" % i) for i in range(n)]
        VP, COMPLETE = valid_stream_terms(e, X, full)
        ts = (VP, COMPLETE, tab("curtsies", X), tab("curses", X), tab("pfx_any", X),
              wf1(e, X) if n <= 4 else z3.BoolVal(False), ppc(e, X),
              tab("pfx_any", X[:n - 1]) if n >= 2 else z3.BoolVal(False))
        _TERM_CACHE[key] = (X, ts)
    X, ts = _TERM_CACHE[key]
    sub = list(zip(X, B))
    return tuple(z3.substitute(t, *sub) for t in ts)


def _cls_ok(cls, b0):
    if cls == "any":
        return True
    lo, hi = CLASSES[cls]
    if cls == "ascii":
        return 0 <= b0 <= 127 and b0 != 27
    return lo <= b0 <= hi


def _restrict_ok(restrict, bs, n):
    if not restrict:
        return True
    with NoTracing():
        B = [zi(b) for b in bs[:n]]
        t = z3.Or(tab("keys", B), tab("pfx_any", B))
    return bool(sbool(t))


def _call(parts, enc, mode, full):
    from curtsies import events
    try:
        return ("val", events.get_key(parts, enc, mode, full))
    except Exception as ex:   # noqa
        return ("exc", type(ex).__name__)


def _fail(code):
    H.NOTES.append("fail-site %d" % code)
    return verdict(False)


def decode(b0: int, b1: int, b2: int, b3: int, b4: int, b5: int, b6: int, b7: int) -> bool:
    """
    pre: 0 <= b0 <= 255 and 0 <= b1 <= 255 and 0 <= b2 <= 255 and 0 <= b3 <= 255
    pre: 0 <= b4 <= 255 and 0 <= b5 <= 255 and 0 <= b6 <= 255 and 0 <= b7 <= 255
    pre: _cls_ok(P["cls"], b0)
    pre: _restrict_ok(P["restrict"], [b0, b1, b2, b3, b4, b5, b6, b7], P["n"])
    post: _
    """
    from curtsies import events
    enc = ENCODINGS[P["enc"]]
    n, full = P["n"], P["full"]
    bs = [b0, b1, b2, b3, b4, b5, b6, b7]
    parts = [bytes([bs[i]]) for i in range(n)]
    # decoder states only: every proper prefix asked for more input
    for k in range(1, n):
        kind, r = _call(parts[:k], enc, events.Keynames.BYTES, False)
        if kind != "val" or r is not None:
            return True
    if P.get("pre_enc"):
        for mode in (events.Keynames.BYTES, events.Keynames.CURTSIES, events.Keynames.CURSES):
            _call(parts, ENCODINGS[P["pre_enc"]], mode, full)
    if n > RAW["max"]:
        return _fail(1)      # (3) a pending state as long as the longest sequence: the next byte makes get_key raise
    res = {}
    for mode in (events.Keynames.BYTES, events.Keynames.CURTSIES, events.Keynames.CURSES):
        res[mode.name] = _call(parts, enc, mode, full)
    kinds = {m: v[0] for m, v in res.items()}
    nones = {m: (v[0] == "val" and v[1] is None) for m, v in res.items()}
    # C20a: the modes cut at the same places - None together, raise together (same exception type)
    if len(set(nones.values())) != 1 or len(set(kinds.values())) != 1:
        return _fail(2)
    if kinds["BYTES"] == "exc" and len({v[1] for v in res.values()}) != 1:
        return _fail(3)
    raised = kinds["BYTES"] == "exc"
    isnone = nones["BYTES"]
    joined = b"".join(parts)
    # (1) lossless: bytes naming returns exactly the bytes
    if not raised and not isnone:
        if not (res["BYTES"][1] == joined):
            return _fail(4)
    cu = res["CURTSIES"][1] if not raised else None
    cs = res["CURSES"][1] if not raised else None
    cu_is_name = isinstance(cu, Name) and cu.table == "curtsies"
    cs_is_name = isinstance(cs, Name) and cs.table == "curses"
    # (6) characters as themselves: evaluated under tracing (symbolic str), per naming mode, when the result is text
    char_checked = False
    cu_char_ok = cs_char_ok = True
    cu_text = (not raised) and (not isnone) and (not cu_is_name) and isinstance(cu, str)
    cs_text = (not raised) and (not isnone) and (not cs_is_name) and isinstance(cs, str)
    if n <= 4 and (cu_text or cs_text):
        if P["enc"] != "utf8" or n == 1:
            cpv = b0
        elif n == 2:
            cpv = (b0 - 0xC0) * 64 + (b1 - 0x80)
        elif n == 3:
            cpv = (b0 - 0xE0) * 4096 + (b1 - 0x80) * 64 + (b2 - 0x80)
        else:
            cpv = (b0 - 0xF0) * 262144 + (b1 - 0x80) * 4096 + (b2 - 0x80) * 64 + (b3 - 0x80)
        char_checked = True
        if cu_text:
            cu_char_ok = len(cu) == 1 and ord(cu) == cpv
        if cs_text:
            cs_char_ok = len(cs) == 1 and ord(cs) == cpv
    with NoTracing():
        B = [zi(b) for b in bs[:n]]
        e = P["enc"]
        VP, COMPLETE, tabC, tabS, pfxAny, WF1, PPC, pfxPrev = _terms(e, n, full, B)
        tabAny = z3.Or(tabC, tabS)
        allascii = z3.And(*[b < 0x80 for b in B])
        REC = z3.And(tabAny, z3.Or(z3.BoolVal(e != "utf8"), allascii, z3.BoolVal(bool(full))))
        conj = []
        known = z3.BoolVal(False)
        if H.excluded("C03-prefix-then-nonascii") and n >= 2:
            known = z3.And(pfxPrev, B[n - 1] >= 0x80)
        if raised:
            conj.append(z3.Or(z3.Not(VP), known))                                      # (7) never fails on valid input
        elif isnone:
            conj.append(z3.Implies(VP, z3.Or(pfxAny, PPC)))                       # (2) more input only while it can grow
            conj.append(z3.Implies(REC, z3.And(z3.BoolVal(not full), pfxAny)))          # (5) not merged / not withheld
            conj.append(z3.Implies(z3.And(z3.BoolVal(bool(full)), COMPLETE), z3.BoolVal(False)))   # (7) complete stream -> a key
        else:
            if not full:
                conj.append(z3.Not(PPC))        # (8) a character is never broken up: its proper prefix waits while bytes are buffered
                conj.append(z3.Not(pfxAny))            # (9) nor is a table sequence: its proper prefix waits while bytes are buffered
            conj.append(z3.Implies(tabC, z3.BoolVal(cu_is_name)))                       # (4) table name, curtsies naming
            conj.append(z3.Implies(tabS, z3.BoolVal(cs_is_name)))                       # (4) table name, curses naming
            conj.append(z3.Implies(z3.BoolVal(cu_is_name), tabC))
            conj.append(z3.Implies(z3.BoolVal(cs_is_name), tabS))
            if not char_checked:
                conj.append(z3.Implies(z3.And(WF1, z3.Not(tabAny)), z3.BoolVal(False)))  # a character must come back as text
        _dbg(conj, B)
        ok = z3.And(*conj) if conj else z3.BoolVal(True)
        nontrivial = z3.BoolVal((not raised) and (not isnone) and n >= 2)
    if char_checked:
        # (6): when the bytes are one well-formed character that is not a key of the mode's table, the text is that character
        with NoTracing():
            need_u = z3.And(WF1, z3.Not(tabC))
            need_s = z3.And(WF1, z3.Not(tabS))
        if cu_text and not cu_char_ok and sbool(need_u):
            return _fail(5)
        if cs_text and not cs_char_ok and sbool(need_s):
            return _fail(6)
    return verdict(sbool(ok), sbool(nontrivial))


# ---------------------------------------------------------------- concrete side (plain CPython)
def _wf1_c(enc, bs):
    try:
        return len(bytes(bs).decode(ENCODINGS[enc])) == 1
    except UnicodeDecodeError:
        return False


def _eval(term):
    return z3.is_true(z3.simplify(term))


def concrete(fn, params, args):
    """replay on the REAL tables and codecs; the verdict uses the same predicates evaluated on concrete bytes,
    with well-formedness taken from CPython's codec instead of our table"""
    from curtsies import events
    _load_raw()
    if fn == "tablecase":
        return _tablecase(params, args)
    if fn == "charsweep":
        return _charsweep(params, args)
    enc = ENCODINGS[params["enc"]]
    n, full = params["n"], params["full"]
    bs = list(args[:n])
    parts = [bytes([b]) for b in bs]
    call = "get_key(%r, %r, <mode>, full=%r) after None for every proper prefix" % (parts, enc, full)
    for k in range(1, n):
        try:
            r = events.get_key(parts[:k], enc, events.Keynames.BYTES, False)
        except Exception:
            return {"ok": True, "observed": "not a decoder state", "call": call}
        if r is not None:
            return {"ok": True, "observed": "not a decoder state", "call": call}
    if params.get("pre_enc"):
        call += " [after the same call under %s]" % params["pre_enc"]
        for mode in (events.Keynames.BYTES, events.Keynames.CURTSIES, events.Keynames.CURSES):
            try:
                events.get_key(parts, ENCODINGS[params["pre_enc"]], mode, full)
            except Exception:      # noqa
                pass
    if n > RAW["max"]:
        return {"ok": False, "observed": "pending state of length %d" % (n - 1), "expected": "no pending state as long as the longest sequence", "call": call}
    res = {}
    for mode in (events.Keynames.BYTES, events.Keynames.CURTSIES, events.Keynames.CURSES):
        try:
            res[mode.name] = ("val", events.get_key(parts, enc, mode, full))
        except Exception as ex:
            res[mode.name] = ("exc", type(ex).__name__)
    obs = repr(res)
    seq = bytes(bs)
    B = [z3.IntVal(b) for b in bs]
    e = params["enc"]
    VP, COMPLETE = valid_stream_terms(e, B, full)
    VP, COMPLETE = _eval(VP), _eval(COMPLETE)
    kinds = {v[0] for v in res.values()}
    nones = {(v[0] == "val" and v[1] is None) for v in res.values()}
    if len(kinds) != 1 or len(nones) != 1 or (kinds == {"exc"} and len({v[1] for v in res.values()}) != 1):
        return {"ok": False, "observed": obs, "expected": "the three naming modes agree on None / exception", "call": call}
    raised = kinds == {"exc"}
    isnone = nones == {True}
    tabC, tabS = seq in RAW["curtsies"], seq in RAW["curses"]
    pfx = seq in RAW["pfx_any"]
    if raised:
        known = n >= 2 and seq[:-1] in RAW["pfx_any"] and seq[-1] >= 0x80
        return {"ok": not VP, "observed": obs, "expected": "no exception: the bytes are a prefix of a valid stream" if VP else "-",
                "call": call, "known_region": "C03-prefix-then-nonascii" if known else None}
    if isnone:
        rec = (tabC or tabS) and (e != "utf8" or all(b < 0x80 for b in bs) or full)
        ok = (not VP or pfx or _eval(ppc(e, B))) and (not rec or (not full and pfx)) and not (full and COMPLETE)
        return {"ok": ok, "observed": obs, "expected": "a key (bytes can no longer grow / stream complete)", "call": call}
    ok = res["BYTES"][1] == seq
    if not full and (pfx or _eval(ppc(e, B))):
        return {"ok": False, "observed": obs, "expected": "None: a proper prefix of a table sequence / character must wait while more bytes are buffered", "call": call}
    if tabC:
        ok = ok and res["CURTSIES"][1] == RAW["curtsies"][seq]
    if tabS:
        ok = ok and res["CURSES"][1] == RAW["curses"][seq]
    if _wf1_c(e, bs) and not tabC:
        ch = seq.decode(enc)
        ok = ok and res["CURTSIES"][1] == ch and (tabS or res["CURSES"][1] == ch)
    if _wf1_c(e, bs) and not tabS:
        ok = ok and res["CURSES"][1] == seq.decode(enc)
    return {"ok": ok, "observed": obs, "expected": "bytes naming == the bytes; table names for table sequences; a character as itself", "call": call}


def region_of(fn, params, args):
    r = concrete(fn, params, args)
    return r.get("known_region")


def selftest(rnd):
    """(a) SymTable membership == dict membership on all keys, all their prefixes and random strings (evaluated on
    concrete bytes); (b) our UTF-8 table == CPython's codec on all 1- and 2-byte strings and boundary 3/4-byte strings;
    (c) every table sequence, driven incrementally on the REAL tables, arrives whole under its table name."""
    from curtsies import events
    _load_raw()
    n = 0
    for name in ("curtsies", "curses", "live_prefixes"):
        data = RAW[name]
        bylen = index_by_len(data)
        probes = set(data) | {k[:i] for k in data for i in range(len(k))}
        for _ in range(300):
            probes.add(bytes(rnd.randrange(256) for _ in range(rnd.randint(0, 8))))
        for pkey in probes:
            got = _eval(member_term(bylen, [z3.IntVal(b) for b in pkey]))
            assert got == (pkey in data), (name, pkey)
            n += 1
    assert RAW["live_prefixes"] == {p for p in RAW["pfx_any"] if p[:1] == b"\x1b"}, "KEYMAP_PREFIXES differs from the proper prefixes of the ESC-initiated table sequences"
    cases = [bytes([a]) for a in range(256)] + [bytes([a, b]) for a in range(256) for b in (0, 0x41, 0x7F, 0x80, 0x8F, 0x90, 0x9F, 0xA0, 0xBF, 0xC0, 0xC2, 0xFF)]
    cases += [bytes([rnd.randrange(0xC0, 0x100), rnd.randrange(256)]) for _ in range(500)]
    for lead in (0xE0, 0xE1, 0xEC, 0xED, 0xEE, 0xEF):
        for b1 in (0x7F, 0x80, 0x9F, 0xA0, 0xBF, 0xC0):
            for b2 in (0x7F, 0x80, 0xBF, 0xC0):
                cases.append(bytes([lead, b1, b2]))
    for lead in (0xF0, 0xF1, 0xF3, 0xF4, 0xF5):
        for b1 in (0x7F, 0x80, 0x8F, 0x90, 0xBF, 0xC0):
            for b2 in (0x80, 0xBF, 0xC0):
                for b3 in (0x7F, 0x80, 0xBF):
                    cases.append(bytes([lead, b1, b2, b3]))
    for c in cases:
        B = [z3.IntVal(b) for b in c]
        assert _eval(wf1("utf8", B)) == _wf1_c("utf8", list(c)), c
        if _wf1_c("utf8", list(c)):
            assert _eval(codepoint("utf8", B) == ord(c.decode("utf8"))), c
            for i in range(1, len(c)):
                assert _eval(ppc("utf8", B[:i])), (c, i)
        n += 1
    return n


def _dbg(conj, B):
    import os
    if not os.environ.get("C03DBG"):
        return
    from crosshair.statespace import context_statespace
    sp = context_statespace()
    for i, c in enumerate(conj):
        s = z3.Solver()
        s.add(*sp.solver.assertions())
        s.add(z3.Not(c))
        r = s.check()
        if str(r) == "sat":
            H.NOTES.append("conj %d falsifiable: %s  model %s" % (i, str(c)[:300], s.model()))


def _charsweep(params, args):
    """every Unicode scalar value in range(lo, hi, step), encoded and driven byte by byte: reported as itself under
    curtsies and curses naming unless its bytes are a table sequence, and as its bytes under bytes naming"""
    from curtsies import events
    lo, hi, step = args
    enc = ENCODINGS[params["enc"]]
    gk, KN = events.get_key, events.Keynames
    keys = RAW["keys"]
    for cp in range(lo, hi, step):
        if 0xD800 <= cp <= 0xDFFF:
            continue
        ch = chr(cp)
        try:
            seq = ch.encode(enc)
        except UnicodeEncodeError:
            continue
        if seq in keys or seq in RAW["pfx_any"]:
            continue
        parts = [seq[i:i + 1] for i in range(len(seq))]
        got = (gk(parts, enc, KN.CURTSIES, False), gk(parts, enc, KN.CURSES, False), gk(parts, enc, KN.BYTES, False))
        if got != (ch, ch, seq):
            return {"ok": False, "observed": repr(got), "expected": repr((ch, ch, seq)),
                    "call": "get_key(%r, %r, <curtsies, curses, bytes>, full=False)" % (parts, enc)}
    return {"ok": True, "observed": "all reported as themselves", "call": "characters U+%04X..U+%04X step %d under %s" % (lo, hi, step, enc)}


def extra_concrete_cases(tier="quick"):
    """every table sequence, driven incrementally on the REAL tables in every encoding, must arrive whole under its
    table name (finite table data: replayed concretely on every run in addition to the symbolic instances)"""
    _load_raw()
    out = []
    for key in sorted(RAW["keys"]):
        for enc in ("utf8", "ascii", "latin1"):
            for full in (True, False):
                out.append(("tablecase", {"enc": enc, "full": full}, list(key)))
    # every character as itself (C extension boundaries such as unicodedata cannot be explored symbolically): the whole
    # BMP, the supplementary planes with stride 7 (quick) / completely (thorough); latin-1 and ascii completely
    out.append(("charsweep", {"enc": "utf8"}, [0, 0x10000, 1]))
    out.append(("charsweep", {"enc": "utf8"}, [0x10000, 0x110000, 7 if tier == "quick" else 1]))
    out.append(("charsweep", {"enc": "latin1"}, [0, 256, 1]))
    out.append(("charsweep", {"enc": "ascii"}, [0, 128, 1]))
    return out


def _tablecase(params, args):
    from curtsies import events
    enc = ENCODINGS[params["enc"]]
    full = params["full"]
    key = bytes(args)
    parts = [key[i:i + 1] for i in range(len(key))]
    call = "get_key driven over table sequence %r (%s, full=%r)" % (key, enc, full)
    meta8 = len(key) == 1 and key[0] >= 0x80
    for k in range(1, len(key)):
        try:
            r = events.get_key(parts[:k], enc, events.Keynames.CURTSIES, False)
        except Exception as ex:
            return {"ok": False, "observed": "prefix %r raised %r" % (key[:k], ex), "expected": "None (sequence not complete yet)", "call": call}
        if r is not None:
            return {"ok": False, "observed": "prefix %r -> %r" % (key[:k], r), "expected": "None: a table sequence is never broken up", "call": call}
    lead = meta8 and 0xC2 <= key[0] <= 0xF4
    if meta8 and params["enc"] == "utf8" and not full and not lead:
        return {"ok": True, "observed": "8-bit byte that cannot start a character, mid-read: not specified", "call": call}
    want_none = (not full) and (key in RAW["pfx_any"] or (params["enc"] == "utf8" and lead))
    for mode, tname in ((events.Keynames.CURTSIES, "curtsies"), (events.Keynames.CURSES, "curses"), (events.Keynames.BYTES, None)):
        try:
            r = events.get_key(parts, enc, mode, full)
        except Exception as ex:
            return {"ok": False, "observed": "raised %r" % (ex,), "expected": "the key", "call": call}
        if want_none:
            if r is not None:
                return {"ok": False, "observed": repr(r), "expected": "None: also the beginning of a longer sequence / of a character", "call": call}
            continue
        if tname is None:
            want = key
        elif key in RAW[tname]:
            want = RAW[tname][key]
        else:
            continue
        if r != want:
            return {"ok": False, "observed": repr(r), "expected": repr(want), "call": call}
    return {"ok": True, "observed": "table name in every mode", "call": call}
