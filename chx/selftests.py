"""Differential self-tests of the symbolic domains against the real Python objects they
stand for ("validate the translator").  Run by the driver at the start of every check;
they need no CrossHair tracing: the z3 terms are evaluated on concrete values."""
import z3


def segstr_selftest(rnd, n=300):
    from chx.domains.segstr import SegStr, src_text, zint, LIT, OUT
    done = 0
    for _ in range(n):
        k = rnd.randint(0, 4)
        parts = []
        segs = []
        for i in range(k):
            kind = rnd.choice("slp")
            ln = rnd.randint(0, 5)
            if kind == "s":
                parts.append(src_text(i, ln))
                segs += SegStr.source(i, ln)._segs
            elif kind == "l":
                t = "".join(rnd.choice("xy\x1b[;m0") for _ in range(ln))
                parts.append(t)
                segs += SegStr.literal(t)._segs
            else:
                parts.append(" " * ln)
                segs += SegStr.spaces(ln)._segs
        real = "".join(parts)
        s = SegStr(segs)
        assert z3.simplify(s._zlen()).as_long() == len(real), (real, s._segs)
        ops = rnd.randint(1, 3)
        for _ in range(ops):
            a = rnd.choice([None] + list(range(-len(real) - 2, len(real) + 3)))
            b = rnd.choice([None] + list(range(-len(real) - 2, len(real) + 3)))
            s = s[slice(None if a is None else z3.IntVal(a), None if b is None else z3.IntVal(b))]
            real = real[a:b]
            if rnd.random() < 0.3:
                extra = rnd.choice(["", "q", "  ", "\x1b[0m"])
                if rnd.random() < 0.5:
                    s = s + extra
                    real = real + extra
                else:
                    s = extra + s
                    real = extra + real
        assert z3.simplify(s._zlen()).as_long() == len(real), (real,)
        for p in range(-1, len(real) + 1):
            a_, b_ = s.atom_at(z3.IntVal(p))
            a_ = z3.simplify(a_).as_long()
            b_ = z3.simplify(b_).as_long()
            if 0 <= p < len(real):
                ch = chr(b_) if a_ == LIT else src_text(a_, b_ + 1)[-1]
                assert ch == real[p], (real, p, a_, b_)
            else:
                assert a_ == OUT, (real, p, a_)
        for needle in ("\x1b[", "\x1b"):
            try:
                got = needle in s
            except Exception:
                continue
            assert got == (needle in real), (real, needle)
        done += 1
    return done
