"""Helpers shared by the concrete twins and the driver.  No CrossHair imports here:
everything in this file runs on plain CPython against the real curtsies modules."""
import ast
import re

STYLE_NAMES = ("bold", "dark", "italic", "underline", "blink", "invert")
STYLE_CODE = {1: "bold", 2: "dark", 3: "italic", 4: "underline", 5: "blink", 7: "invert"}


def disp(atts):
    """what a run's attribute dict displays as: an attribute explicitly False shows like an absent one"""
    return {k: v for k, v in dict(atts).items() if v is not False and v is not None}


def cells(f):
    """per-character list [(char, displayed attributes)] of a FmtStr (or plain str)"""
    if isinstance(f, str):
        return [(c, {}) for c in f]
    out = []
    for ch in f.chunks:
        d = disp(ch.atts)
        for c in ch.s:
            out.append((c, d))
    return out


def render_matches(f):
    """the terminal string of a FmtStr (str(f), possibly memoised) displays exactly the cells its runs describe"""
    if isinstance(f, str):
        return True
    r = sgr_interpret(str(f))
    return r is not None and r[0] == cells(f) and r[1] == {}


def cells_of_rows(rows):
    return [cells(r) for r in rows]


def fmt_cells(cs):
    """compact printable form of a cell list"""
    out = []
    for c, d in cs:
        out.append(repr(c)[1:-1] + ("{" + ",".join("%s=%s" % kv for kv in sorted(d.items())) + "}" if d else ""))
    return " ".join(out)


def sgr_interpret(s, state=None):
    """Independent SGR interpreter (the oracle of C01/C05).

    Feeds `s` to a terminal whose graphic state is `state` (default: the default state).
    Returns (cells, final_state) or None when the string contains anything but text and
    well-formed `ESC [ p1;...;pn m` sequences with supported parameters."""
    st = dict(state or {})
    out = []
    i = 0
    n = len(s)
    while i < n:
        ch = s[i]
        if ch == "\x9b":
            return None
        if ch == "\x1b":
            if i + 1 >= n or s[i + 1] != "[":
                return None
            j = i + 2
            num = 0
            have = False
            params = []
            while j < n and s[j] != "m":
                c = s[j]
                if c == ";":
                    params.append(num if have else 0)
                    num = 0
                    have = False
                elif "0" <= c <= "9":
                    num = num * 10 + (ord(c) - 48)
                    have = True
                else:
                    return None
                j += 1
            if j >= n:
                return None
            params.append(num if have else 0)
            for p in params:
                if p == 0:
                    st = {}
                elif p in STYLE_CODE:
                    st = dict(st)
                    st[STYLE_CODE[p]] = True
                elif 30 <= p <= 37:
                    st = dict(st)
                    st["fg"] = p
                elif 40 <= p <= 47:
                    st = dict(st)
                    st["bg"] = p
                elif p == 39:
                    st = {k: v for k, v in st.items() if k != "fg"}
                elif p == 49:
                    st = {k: v for k, v in st.items() if k != "bg"}
                else:
                    return None
            i = j + 1
        else:
            out.append((ch, st))
            i += 1
    return out, st


_CALL_RE = re.compile(r"when calling (\w+)\((.*)\)(?: \(which returns .*\))?(?: with .*)?$", re.S)


def parse_counterexample(message):
    """'... when calling fn(1, 'a', b=2) (which returns False)' -> (fn, [args], {kwargs}) or None"""
    idx = message.find("when calling ")
    if idx < 0:
        return None
    tail = message[idx + len("when calling "):]
    # find the balanced call expression at the start of tail
    depth = 0
    instr = None
    esc = False
    end = None
    for k, c in enumerate(tail):
        if instr:
            if esc:
                esc = False
            elif c == "\\":
                esc = True
            elif c == instr:
                instr = None
            continue
        if c in "'\"":
            instr = c
        elif c in "([{":
            depth += 1
        elif c in ")]}":
            depth -= 1
            if depth == 0:
                end = k + 1
                break
    if end is None:
        return None
    expr = tail[:end]
    try:
        node = ast.parse(expr, mode="eval").body
        if not isinstance(node, ast.Call):
            return None
        args = [ast.literal_eval(a) for a in node.args]
        kwargs = {k.arg: ast.literal_eval(k.value) for k in node.keywords}
        return node.func.id, args, kwargs
    except Exception:
        return None
