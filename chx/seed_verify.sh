#!/bin/sh
# usage: seed_verify.sh <dir with patch.diff demo.py meta.json> <name>
# Confirms in a scratch worktree: patch applies, 77 tests pass with it, demo fails with it and passes without it.
# On success copies the three files to /verif/seeded/<name>/ and records what was run in meta.json.
set -e
SRC=$1; NAME=$2
WT=/tmp/sv-$NAME
git -C /repo worktree remove --force $WT 2>/dev/null || true
git -C /repo worktree add -q $WT HEAD
cd $WT
mkdir -p out/x && cp $SRC/demo.py out/x/demo.py
if /venv/bin/python out/x/demo.py >/dev/null 2>&1; then CLEAN=pass; else CLEAN=fail; fi
git apply $SRC/patch.diff
TESTS=$(/venv/bin/python -m pytest -q -p no:cacheprovider 2>&1 | tail -1)
if /venv/bin/python out/x/demo.py >/dev/null 2>&1; then PATCHED=pass; else PATCHED=fail; fi
cd /
git -C /repo worktree remove --force $WT
echo "$NAME: clean=$CLEAN patched=$PATCHED tests=[$TESTS]"
case "$TESTS" in *"77 passed"*) ;; *) echo "REJECT: tests"; exit 1;; esac
[ "$CLEAN" = pass ] && [ "$PATCHED" = fail ] || { echo "REJECT: demo"; exit 1; }
mkdir -p /verif/seeded/$NAME
cp $SRC/patch.diff $SRC/demo.py /verif/seeded/$NAME/
python3 - "$SRC/meta.json" "/verif/seeded/$NAME/meta.json" "$TESTS" <<'PY'
import json, sys
m = json.load(open(sys.argv[1]))
m["verified"] = {"by": "chx/seed_verify.sh in a scratch worktree of /repo HEAD", "tests_with_patch": sys.argv[3],
                 "demo_on_clean_tree": "exit 0", "demo_with_patch": "non-zero exit"}
json.dump(m, open(sys.argv[2], "w"), indent=1)
PY
