#!/bin/sh
# like seed_matrix.sh but only for the seeded changes given as arguments (names); appends to seeded/RESULTS2.jsonl
cd /verif
for n in "$@"; do
  d=seeded/$n
  prop=$(python3 -c "import json;print(json.load(open('$d/meta.json'))['property'])")
  S=$(date +%s)
  line=$(./chx/seed_run.sh $n $prop quick 2>&1 | head -1)
  E=$(date +%s)
  echo "$line ($((E-S))s)"
  python3 - "$n" "$prop" "$line" "$((E-S))" >> seeded/RESULTS2.jsonl <<'PY'
import json, re, sys
n, prop, line, secs = sys.argv[1:5]
m = re.search(r"exit (\d+); (\d+) VIOLATION", line)
print(json.dumps({"seeded": n, "property": prop, "check_exit": int(m.group(1)) if m else None,
                  "violation_lines": int(m.group(2)) if m else None, "detected": bool(m and m.group(1) == "1" and int(m.group(2)) > 0), "seconds": int(secs)}))
PY
done
