"""Engine patches applied in every worker process before a harness is analysed.

Each patch is part of the trusted base and is listed in every evidence file (ENGINE_PATCHES).
"""
import copyreg
import time

import z3

_pc = time.perf_counter  # captured at import: time.time() is symbolic under CrossHair
Z3_STATS = {"checks": 0, "seconds": 0.0, "sat": 0, "unsat": 0, "unknown": 0}

ENGINE_PATCHES = [
    "crosshair.libimpl.relib._Match.groupdict rebuilt on group() (0.0.110 returns index pairs and drops unmatched groups)",
    "str.__mod__ registration: the two '%r' % dict.keys() logger.debug format strings of curtsies.window and the ValueError message of get_cursor_position ('Bytes preceding cursor position ... %r') are returned unformatted (log / message text is not the subject; formatting would realise the symbolic values)",
    "copyreg.pickle(FrozenAttributes / FmtStr) so CrossHair's own deepcopy bookkeeping can copy them (plain copy.copy of a FmtStr raises RecursionError, deepcopy of FrozenAttributes 'Cannot change value.'); Chunk is copied by the default protocol (instance dict preserved)",
    "SymbolicInt.__mul__/__rmul__ with ' ' returns a SegStr of spaces (only in SegStr harnesses)",
    "z3.Solver.check wrapped to count queries and solver seconds",
    "StateSpace.__init__ wrapped: module-level containers of the curtsies modules are restored to their snapshot at the start of every path (chx/statereset.py)",
    "search heuristics off: premature realisation of arguments (redundant subset of the symbolic path) and short-circuiting of contract-carrying callees (real bodies always run)",
]


def _wrap_z3():
    if getattr(z3.Solver, "_verif_wrapped", False):
        return
    orig = z3.Solver.check

    def check(self, *a):
        t = _pc()
        r = orig(self, *a)
        Z3_STATS["checks"] += 1
        Z3_STATS["seconds"] += _pc() - t
        s = str(r)
        if s in Z3_STATS:
            Z3_STATS[s] += 1
        return r

    z3.Solver.check = check
    z3.Solver._verif_wrapped = True


def _fix_groupdict():
    from crosshair.libimpl import relib

    def groupdict(self, default=None):
        ret = {}
        for name, idx in self.re.groupindex.items():
            if self._groups[idx] is None:
                ret[name] = default
            else:
                ret[name] = self.group(idx)
        return ret

    relib._Match.groupdict = groupdict


def _fix_logging_format():
    from crosshair.core import _PATCH_REGISTRATIONS, deep_realize
    from crosshair.tracers import NoTracing
    from curtsies.formatstring import FrozenAttributes

    copyreg.pickle(FrozenAttributes, lambda fa: (FrozenAttributes, (dict(fa),)))
    # FmtStr.__getattr__ recurses forever on an instance whose __init__ has not run, which is what copy/pickle
    # create (copy.copy(fmtstr('a')) raises RecursionError on plain CPython too); CrossHair deep-copies values
    # handed to hash()/containers, so FmtStr and Chunk get explicit reducers (curtsies itself never copies them)
    from curtsies.formatstring import FmtStr, Chunk
    copyreg.pickle(FmtStr, lambda f: (FmtStr, tuple(f.chunks)))
    # (no reducer for Chunk: with FrozenAttributes reducible, the default shallow / deep copy of a Chunk works and
    #  keeps its instance dict - including memoised strings - exactly as on plain CPython)

    def pf(self, other):
        with NoTracing():
            if type(self) is str and self.startswith(("lines in ", "Bytes preceding cursor position")):
                return self
        other = deep_realize(other)
        self = deep_realize(self)
        with NoTracing():
            return str.__mod__(self, other)

    _PATCH_REGISTRATIONS[str.__mod__] = pf


def _tune_search():
    """two CrossHair search heuristics that only add redundant paths to these harnesses are switched off:
    * 'premature realisation' of int/str arguments (a random fork that replaces a symbolic argument by one
      concrete value - a strict subset of the symbolic path that is explored anyway);
    * short-circuiting of calls to functions that carry contracts (the callee is replaced by an arbitrary
      proxy value and reconciled later): every call executes its real body instead."""
    from crosshair import statespace, core
    orig_fork = statespace.StateSpace.fork_parallel

    def fork_parallel(self, false_probability, desc=""):
        if desc.startswith("premature realize"):
            return False
        return orig_fork(self, false_probability, desc)

    statespace.StateSpace.fork_parallel = fork_parallel
    core.ShortCircuitingContext.make_interceptor = lambda self, original: original


def install():
    import sys
    sys.setrecursionlimit(20000)
    _wrap_z3()
    import crosshair.core_and_libs  # noqa: F401  (registers the library patches)
    _fix_groupdict()
    _fix_logging_format()
    _tune_search()
