"""Engine patches applied in every worker process before a harness is analysed.

Each patch is part of the trusted base and is listed in every evidence file (ENGINE_PATCHES).
"""
import copyreg
import time

import z3

_pc = time.perf_counter  # captured at import: time.time() is symbolic under CrossHair
Z3_STATS = {"checks": 0, "seconds": 0.0, "sat": 0, "unsat": 0, "unknown": 0}

ENGINE_PATCHES = [
    "crosshair.libimpl.relib._Match.groupdict rebuilt on group() (0.0.110 returns index pairs and drops unmatched groups)",
    "str.__mod__ registration: the two '%r' % dict.keys() logger.debug format strings of curtsies.window are returned unformatted (logging is not the subject)",
    "copyreg.pickle(FrozenAttributes) so CrossHair's own deepcopy bookkeeping can copy run attributes",
    "SymbolicInt.__mul__/__rmul__ with ' ' returns a SegStr of spaces (only in SegStr harnesses)",
    "z3.Solver.check wrapped to count queries and solver seconds",
]


def _wrap_z3():
    if getattr(z3.Solver, "_verif_wrapped", False):
        return
    orig = z3.Solver.check

    def check(self, *a):
        t = _pc()
        r = orig(self, *a)
        Z3_STATS["checks"] += 1
        Z3_STATS["seconds"] += _pc() - t
        s = str(r)
        if s in Z3_STATS:
            Z3_STATS[s] += 1
        return r

    z3.Solver.check = check
    z3.Solver._verif_wrapped = True


def _fix_groupdict():
    from crosshair.libimpl import relib

    def groupdict(self, default=None):
        ret = {}
        for name, idx in self.re.groupindex.items():
            if self._groups[idx] is None:
                ret[name] = default
            else:
                ret[name] = self.group(idx)
        return ret

    relib._Match.groupdict = groupdict


def _fix_logging_format():
    from crosshair.core import _PATCH_REGISTRATIONS, deep_realize
    from crosshair.tracers import NoTracing
    from curtsies.formatstring import FrozenAttributes

    copyreg.pickle(FrozenAttributes, lambda fa: (FrozenAttributes, (dict(fa),)))

    def pf(self, other):
        with NoTracing():
            if type(self) is str and self.startswith("lines in "):
                return self
        other = deep_realize(other)
        self = deep_realize(self)
        with NoTracing():
            return str.__mod__(self, other)

    _PATCH_REGISTRATIONS[str.__mod__] = pf


def install():
    import sys
    sys.setrecursionlimit(20000)
    _wrap_z3()
    import crosshair.core_and_libs  # noqa: F401  (registers the library patches)
    _fix_groupdict()
    _fix_logging_format()
