#!/usr/bin/env python3
"""Regenerates the table of DESIGN.md section 5 from seeded/RESULTS.jsonl and seeded/<id>/meta.json
(between the markers '| seeded change | breaks |' and the first blank line after the table)."""
import json
import os
import re

ROOT = os.path.dirname(os.path.dirname(os.path.abspath(__file__)))


def key(n):
    m = re.match(r"C(\d+)-(\d+)", n)
    return int(m.group(1)), int(m.group(2))


def main():
    rows = {}
    for line in open(os.path.join(ROOT, "seeded", "RESULTS.jsonl")):
        if line.strip():
            r = json.loads(line)
            rows[r["seeded"]] = r
    out = ["| seeded change | breaks | what it needs to manifest (abridged) | quick check result |", "|---|---|---|---|"]
    for n in sorted(rows, key=key):
        r = rows[n]
        meta = json.load(open(os.path.join(ROOT, "seeded", n, "meta.json")))
        needs = " ".join(meta.get("needs", "").split())[:150].replace("|", "\\|")
        if r["detected"]:
            res = "detected (%d VIOLATION lines)" % r["violation_lines"]
        else:
            res = "NOT detected (exit %s)%s" % (r["check_exit"], (": " + r["note"]) if r.get("note") else "")
        if r.get("first_run"):
            res += " - after strengthening; first run: exit %s" % r["first_run"]["check_exit"]
        out.append("| %s | %s | %s | %s |" % (n, r["property"], needs, res))
    p = os.path.join(ROOT, "DESIGN.md")
    s = open(p).read()
    i = s.index("| seeded change | breaks |")
    j = s.index("\n\n", i)
    s = s[:i] + "\n".join(out) + s[j:]
    open(p, "w").write(s)
    print("%d rows; detected %d" % (len(rows), sum(1 for r in rows.values() if r["detected"])))


if __name__ == "__main__":
    main()
