#!/verif/.venv/bin/python
"""Driver: `run.py <PROP> --tier quick|thorough`

Expands the property's harness families into instances, runs one CrossHair worker
process per instance (16 at a time), replays every counterexample with the concrete twin
on plain CPython, matches reproduced violations against known_findings.json, writes
evidence/<PROP>.json and prints VIOLATION / KNOWN-FINDING lines.

exit 0: held on everything explored; 1: reproduced, unlisted violation;
3: harness/engine problem (counterexample that does not reproduce, vacuous harness, worker crash).
"""
import argparse
import concurrent.futures as cf
import importlib
import json
import os
import random
import subprocess
import sys
import time

HERE = os.path.dirname(os.path.abspath(__file__))
ROOT = os.path.dirname(HERE)
sys.path.insert(0, ROOT)

from chx.common import parse_counterexample  # noqa: E402

PY = os.path.join(ROOT, ".venv", "bin", "python")
EVID = os.path.join(ROOT, "evidence")
REPLAYS = os.path.join(EVID, "replays")
NCPU = int(os.environ.get("VERIF_JOBS", "0")) or min(16, os.cpu_count() or 4)


def load_known(prop):
    path = os.path.join(HERE, "known_findings.json")
    with open(path) as fh:
        data = json.load(fh)
    return [e for e in data["findings"] if e["property"] == prop or prop in e.get("shared_with", [])]


DEADLINE = [None]     # wall-clock instant after which no further instance is started (thorough tier; see main)


def run_worker(modname, inst, excluded, witness):
    t0 = time.time()
    timeout = inst["timeout"]
    if DEADLINE[0] is not None and not witness:
        if t0 > DEADLINE[0]:
            return {"fn": inst["fn"], "params": inst["params"], "witness": witness, "messages": [], "paths": 0, "z3_checks": 0,
                    "z3_seconds": 0.0, "skipped": True, "name": inst["name"], "elapsed": 0.0}
        timeout = int(min(timeout, max(60, DEADLINE[0] - t0 + 90)))
    cmd = [PY, os.path.join(HERE, "worker.py"), modname, inst["fn"], str(timeout),
           json.dumps(inst["params"]), ",".join(sorted(excluded)), "1" if witness else "0"]
    env = dict(os.environ)
    env["PYTHONHASHSEED"] = "0"
    env.setdefault("TERM", "xterm-256color")
    hard = int(timeout * 1.4) + 60
    try:
        cp = subprocess.run(cmd, capture_output=True, text=True, timeout=hard, env=env, cwd=ROOT)
        out, err, rc = cp.stdout, cp.stderr, cp.returncode
    except subprocess.TimeoutExpired as ex:
        out = (ex.stdout or b"").decode("utf8", "replace") if isinstance(ex.stdout, bytes) else (ex.stdout or "")
        err = "hard timeout after %ds" % hard
        rc = -9
        # inconclusive, not a crash: one path outlasted the budget (CrossHair checks its time limits between paths)
        return {"fn": inst["fn"], "params": inst["params"], "witness": witness, "messages": [], "paths": 0, "z3_checks": 0,
                "z3_seconds": 0.0, "hard_timeout": True, "name": inst["name"], "elapsed": round(time.time() - t0, 2),
                "notes": [err]}
    rec = None
    for line in out.splitlines():
        if line.startswith("@@RESULT@@"):
            rec = json.loads(line[len("@@RESULT@@"):])
    if rec is None:
        rec = {"fn": inst["fn"], "params": inst["params"], "witness": witness, "messages": [],
               "paths": 0, "z3_checks": 0, "z3_seconds": 0.0, "crash": True,
               "stderr": (err or "")[-1500:], "rc": rc}
    rec["name"] = inst["name"]
    rec["elapsed"] = round(time.time() - t0, 2)
    return rec


def classify(rec):
    """-> one of confirmed / refuted / unknown / pre_unsat / crash, plus the message"""
    if rec.get("skipped"):
        return "skipped", None
    if rec.get("hard_timeout"):
        return "unknown", None
    if rec.get("crash"):
        return "crash", None
    states = [m["state"] for m in rec["messages"]]
    for m in rec["messages"]:
        if m["state"] in ("POST_FAIL", "EXEC_ERR", "POST_ERR", "PRE_INVALID", "SYNTAX_ERR", "IMPORT_ERR"):
            return "refuted", m
    if "PRE_UNSAT" in states:
        return "pre_unsat", None
    if "CANNOT_CONFIRM" in states:
        return "unknown", None
    if states and all(s == "CONFIRMED" for s in states):
        return "confirmed", None
    return "unknown", None


def safe_concrete(mod, fn, params, args):
    """run the concrete twin; an exception escaping from curtsies code while the twin observes the result is
    a failure of the real code (the properties give it no licence to raise there); one from our own code is
    a harness problem"""
    import signal
    import traceback

    class _Hang(BaseException):
        pass

    def _alarm(signum, frame):
        raise _Hang()

    from chx import statereset
    statereset.reset()       # every replay starts from the import-time module state of the library
    old = signal.signal(signal.SIGALRM, _alarm)
    signal.alarm(120)
    try:
        return mod.concrete(fn, params, args)
    except BaseException as ex:      # noqa
        if type(ex).__name__ == "ModelGap":
            return {"ok": None, "note": "environment model gap: %s" % (ex,), "harness_error": True}
        if not isinstance(ex, (_Hang, Exception)):
            raise
        if isinstance(ex, Exception):
            tb = traceback.extract_tb(ex.__traceback__)
            inner = tb[-1].filename if tb else ""
            where = "%s:%s" % (os.path.basename(inner), tb[-1].lineno if tb else 0)
            if "/curtsies/" in inner and "/verif/" not in inner:
                return {"ok": False, "observed": "raised %r at %s" % (ex, where), "expected": "no exception",
                        "call": "%s%r" % (fn, tuple(args))}
            return {"ok": None, "note": "harness exception %r at %s" % (ex, where), "harness_error": True}
        return {"ok": False, "observed": "the real code did not return within 120 s on this input", "expected": "termination",
                "call": "%s%r" % (fn, tuple(args))}
    except Exception as ex:
        tb = traceback.extract_tb(ex.__traceback__)
        inner = tb[-1].filename if tb else ""
        where = "%s:%s" % (os.path.basename(inner), tb[-1].lineno if tb else 0)
        if "/curtsies/" in inner and "/verif/" not in inner:
            return {"ok": False, "observed": "raised %r at %s" % (ex, where), "expected": "no exception",
                    "call": "%s%r" % (fn, tuple(args))}
        return {"ok": None, "note": "harness exception %r at %s" % (ex, where), "harness_error": True}
    finally:
        signal.alarm(0)
        signal.signal(signal.SIGALRM, old)


class Tracer:
    """records which curtsies functions the concrete twins enter (functions_encoded)"""

    def __init__(self):
        self.seen = set()

    def __enter__(self):
        def prof(frame, event, arg):
            if event == "call":
                fn = frame.f_code.co_filename
                if "/curtsies/" in fn and "/site-packages/" not in fn:
                    self.seen.add("%s:%s" % (os.path.basename(fn), frame.f_code.co_qualname))
        sys.setprofile(prof)
        return self

    def __exit__(self, *a):
        sys.setprofile(None)


def main():
    ap = argparse.ArgumentParser()
    ap.add_argument("prop")
    ap.add_argument("--tier", default=os.environ.get("VERIF_TIER", "quick"))
    ap.add_argument("--only", default=None, help="substring filter on instance names (debugging)")
    ap.add_argument("--replay", default=None, help="replay a stored counterexample file")
    a = ap.parse_args()
    prop = a.prop.upper()
    tier = a.tier if a.tier in ("quick", "thorough") else "quick"
    seed = int(os.environ.get("VERIF_SEED", "0") or 0)
    modname = prop.lower()
    mod = importlib.import_module("chx.harness." + modname)
    import curtsies
    repo_file = os.path.dirname(curtsies.__file__)
    import pkgutil
    for m in pkgutil.iter_modules(curtsies.__path__):
        try:
            importlib.import_module("curtsies." + m.name)
        except Exception:      # noqa  (an optional dependency of one module missing: nothing to snapshot there)
            pass
    from chx import statereset
    statereset.snapshot()

    if a.replay:
        with open(a.replay) as fh:
            r = json.load(fh)
        res = mod.concrete(r["fn"], r["params"], r["args"])
        print(json.dumps(res, indent=1, default=str))
        return 0 if res.get("ok") else 1

    t_start = time.time()
    os.makedirs(REPLAYS, exist_ok=True)
    for fn in os.listdir(REPLAYS):
        if fn.startswith(prop + "-"):
            os.unlink(os.path.join(REPLAYS, fn))

    tracer = Tracer()
    concrete_runs = 0
    problems = []     # harness/engine problems -> exit 3
    violations = []   # reproduced, unlisted
    known_lines = []
    samples = []

    # ---- 0. self tests of the domains / oracles this property relies on
    selftest_n = 0
    if hasattr(mod, "selftest"):
        with tracer:
            try:
                selftest_n = int(mod.selftest(random.Random(seed)) or 0)
            except AssertionError as ex:
                problems.append("selftest failed: %r" % (ex,))
        concrete_runs += selftest_n

    # ---- 1. known findings: replay the witnesses, decide which regions are excluded
    excluded = set()
    for e in load_known(prop):
        w = e["witness"]
        with tracer:
            res = safe_concrete(mod, w["fn"], w["params"], w["args"])
        concrete_runs += 1
        if e["status"] == "known":
            if res.get("ok") is False:
                if e["property"] == prop:
                    known_lines.append("KNOWN-FINDING: property=%s %s [%s]" % (prop, e["what"], e["id"]))
                # (a finding of another property whose harness this check re-uses: region excluded, line printed there)
                if e.get("region"):
                    excluded.add(e["region"])
            # witness no longer fails: nothing excluded, nothing printed
        else:  # fixed: a regression input
            if res.get("ok") is False:
                path = os.path.join(REPLAYS, "%s-fixed-%s.json" % (prop, e["id"]))
                with open(path, "w") as fh:
                    json.dump({"property": prop, "fn": w["fn"], "params": w["params"], "args": w["args"],
                               "result": res, "regression_of": e["id"]}, fh, indent=1, default=str)
                violations.append((path, "regression of fixed finding %s: %s" % (e["id"], e["what"])))
    for line in known_lines:
        print(line)

    # ---- 1b. finite data the property quantifies over (e.g. every table entry): concrete replays
    extra_n = 0
    if hasattr(mod, "extra_concrete_cases"):
        bad = 0
        import inspect
        ecases = mod.extra_concrete_cases(tier) if inspect.signature(mod.extra_concrete_cases).parameters else mod.extra_concrete_cases()
        for (efn, eparams, eargs) in ecases:
            with tracer:
                res = safe_concrete(mod, efn, eparams, eargs)
            concrete_runs += 1
            extra_n += 1
            if res.get("ok") is False:
                region = res.get("known_region")
                if region is not None and region in excluded:
                    continue
                bad += 1
                if bad <= 5:
                    path = os.path.join(REPLAYS, "%s-data-%d.json" % (prop, bad))
                    with open(path, "w") as fh:
                        json.dump({"property": prop, "fn": efn, "params": eparams, "args": eargs, "result": res}, fh, indent=1, default=str)
                    violations.append((path, "table/data case: %s" % json.dumps(res, default=str)[:300]))
            elif res.get("harness_error"):
                problems.append("data case %r: %s" % (eargs, res.get("note")))

    # ---- 2. symbolic instances + reachability twins
    insts = mod.instances(tier, seed)
    if a.only:
        insts = [i for i in insts if a.only in i["name"]]
    rnd = random.Random(seed)
    rnd.shuffle(insts)
    fams = {}
    for i in insts:
        fams.setdefault(i["fn"], []).append(i)
    jobs = [(i, False) for i in insts]
    # one reachability twin per family (quick) / up to 9 spread over the family (thorough); vacuity is judged per family
    wit = []
    for fn, lst in fams.items():
        lst = sorted(lst, key=lambda i: i["name"])
        take = lst[-1:] if tier == "quick" else (lst[::max(1, len(lst) // 8)][:8] + lst[-1:])
        if hasattr(mod, "witness_instances"):
            take = mod.witness_instances(fn, lst, tier)
        wit.extend(take)
    jobs = [(dict(i, timeout=min(i["timeout"], 60)), True) for i in wit] + jobs

    jobs.sort(key=lambda j: -j[0].get("cost", 1))      # expensive instances first (better packing on the cores)
    budget = float(os.environ.get("VERIF_BUDGET_S", "0") or 0) or (720.0 if tier == "thorough" else 0.0)
    if tier == "thorough":
        # thorough = the quick instances (same names) first, then the deeper ones in the seeded order, until the wall
        # budget is used up: instances not started by then are recorded as skipped, never as confirmed
        qnames = {i["name"] for i in mod.instances("quick", seed)}
        first = [j for j in jobs if j[1] or j[0]["name"] in qnames]
        rest = [j for j in jobs if not (j[1] or j[0]["name"] in qnames)]
        random.Random(seed + 1).shuffle(rest)
        jobs = first + rest
    if budget:
        DEADLINE[0] = t_start + budget
    results = []
    with cf.ThreadPoolExecutor(NCPU) as ex:
        futs = [ex.submit(run_worker, modname, i, excluded, w) for i, w in jobs]
        for f in cf.as_completed(futs):
            results.append(f.result())

    counts = {"confirmed": 0, "unknown": 0, "refuted_replayed": 0, "refuted_not_reproduced": 0,
              "refuted_known_region": 0, "pre_unsat": 0, "crash": 0, "witness_ok": 0, "witness_bad": 0, "skipped_budget": 0}
    paths = checks = 0
    z3s = 0.0
    nontrivial = 0
    inst_records = []
    nrep = 0
    vacuous = {}        # family -> witness twins that found nothing
    witnessed = set()   # families with at least one replayed, true, non-trivial witness
    for rec in sorted(results, key=lambda r: (r["witness"], r["name"])):
        kind, msg = classify(rec)
        if kind == "skipped":
            counts["skipped_budget"] += 1
            continue
        paths += rec.get("paths", 0)
        checks += rec.get("z3_checks", 0)
        z3s += rec.get("z3_seconds", 0.0)
        entry = {"instance": rec["name"], "fn": rec["fn"], "params": rec["params"], "witness": rec["witness"],
                 "verdict": kind, "paths": rec.get("paths", 0), "z3_checks": rec.get("z3_checks", 0),
                 "z3_seconds": rec.get("z3_seconds", 0.0), "elapsed_s": rec.get("elapsed")}
        if rec.get("notes"):
            entry["notes"] = rec["notes"]
        if rec["witness"]:
            # must be refuted, and the model must replay as a TRUE instance of the property
            if kind == "refuted":
                ce = parse_counterexample(msg["message"])
                if ce is None:
                    counts["witness_bad"] += 1
                    problems.append("witness %s: cannot parse %r" % (rec["name"], msg["message"][:200]))
                else:
                    with tracer:
                        res = safe_concrete(mod, rec["fn"], rec["params"], ce[1])
                    concrete_runs += 1
                    if res.get("ok") is True:
                        counts["witness_ok"] += 1
                        witnessed.add(rec["fn"])
                        if len(samples) < 12:
                            samples.append({"instance": rec["name"], "args": ce[1], "real_call": str(res.get("call"))[:300],
                                            "real_result": str(res.get("observed"))[:300]})
                    elif res.get("ok") is None:
                        counts["witness_ok"] += 1
                        witnessed.add(rec["fn"])
                    else:
                        counts["witness_bad"] += 1
                        problems.append("witness %s: solver says the property holds on %r but the real code disagrees: %s"
                                        % (rec["name"], ce[1], json.dumps(res, default=str)[:400]))
            elif kind == "unknown":
                entry["note"] = "witness search inconclusive"
            elif kind == "confirmed":
                # no non-trivial true instance inside THIS instance's slice (e.g. zero runs): vacuity is judged per family below
                entry["note"] = "no non-trivial witness in this instance"
                vacuous.setdefault(rec["fn"], []).append(rec["name"])
            else:
                counts["witness_bad"] += 1
                problems.append("witness %s: verdict %s (%s) - harness crashed: %s" % (
                    rec["name"], kind, [m["message"][:120] for m in rec["messages"]], rec.get("stderr", "")[-400:]))
            inst_records.append(entry)
            continue
        if rec.get("paths", 0) > 1:
            nontrivial += 1
        if kind == "confirmed":
            counts["confirmed"] += 1
        elif kind == "unknown":
            counts["unknown"] += 1
        elif kind == "pre_unsat":
            counts["pre_unsat"] += 1
            problems.append("instance %s: precondition unsatisfiable (harness bug)" % rec["name"])
        elif kind == "crash":
            counts["crash"] += 1
            problems.append("instance %s crashed: %s" % (rec["name"], rec.get("stderr", "")[-600:]))
        else:
            ce = parse_counterexample(msg["message"])
            entry["counterexample"] = msg["message"][:600]
            if ce is None:
                counts["refuted_not_reproduced"] += 1
                problems.append("instance %s: cannot parse counterexample %r" % (rec["name"], msg["message"][:300]))
            else:
                with tracer:
                    res = safe_concrete(mod, rec["fn"], rec["params"], ce[1])
                concrete_runs += 1
                if res.get("ok") is False:
                    region = mod.region_of(rec["fn"], rec["params"], ce[1]) if hasattr(mod, "region_of") else None
                    if region is not None and region in excluded:
                        counts["refuted_known_region"] += 1
                        entry["note"] = "counterexample inside known region " + region
                    else:
                        counts["refuted_replayed"] += 1
                        nrep += 1
                        path = os.path.join(REPLAYS, "%s-%d.json" % (prop, nrep))
                        with open(path, "w") as fh:
                            json.dump({"property": prop, "instance": rec["name"], "fn": rec["fn"],
                                       "params": rec["params"], "args": ce[1], "solver_message": msg["message"][:1000],
                                       "result": res}, fh, indent=1, default=str)
                        violations.append((path, "%s: %s" % (rec["name"], json.dumps(res, default=str)[:300])))
                elif res.get("ok") is None:
                    counts["refuted_not_reproduced"] += 1
                    problems.append("instance %s: counterexample %r could not be replayed: %s" % (rec["name"], ce[1], res.get("note")))
                else:
                    counts["refuted_not_reproduced"] += 1
                    problems.append("instance %s: counterexample %r does not reproduce on the real code (%s): %s"
                                    % (rec["name"], ce[1], msg["message"][:200], json.dumps(res, default=str)[:300]))
        inst_records.append(entry)

    n_hard = sum(1 for r in results if r.get("hard_timeout") and not r["witness"])
    if n_hard and n_hard * 2 >= max(1, sum(1 for r in results if not r["witness"] and not r.get("skipped"))):
        problems.append("%d instances ran into the hard time limit without any verdict" % n_hard)
    for fam, names in vacuous.items():
        if fam not in witnessed:
            counts["witness_bad"] += 1
            problems.append("family %s: no reachability twin found a non-trivial true instance (%s) - harness vacuous" % (fam, ", ".join(names[:5])))
    wall = time.time() - t_start
    n_inst = sum(1 for r in results if not r["witness"] and not r.get("skipped"))
    exhaustive = (n_inst > 0 and counts["confirmed"] == n_inst and not counts["skipped_budget"] and not problems and not violations)
    if not samples:
        samples = [{"note": "no reachability witness replayed in this run"}]
    ev = {
        "property_id": prop, "tier": tier, "seed": seed, "level": "model_checking",
        "coverage": {
            "states": max(paths, 1),
            "transitions": max(checks, 1),
            "traces_validated_against_impl": concrete_runs,
            "samples": samples,
            "evaluations": max(n_inst, 1),
            "distinct_nontrivial": nontrivial,
            "rule": "one instance = one CrossHair analysis of one harness function under one concrete structure "
                    "(params); states = execution paths explored, transitions = z3 check() calls; an instance is "
                    "non-trivial when its path tree had more than one path",
            "exhaustive": exhaustive,
            "explanation": "exhaustive=true means every instance ended 'Confirmed over all paths' inside the stated bounds",
            "instances_run": n_inst,
            "instances_listed": sum(1 for r in results if not r["witness"]),
            "wall_budget_s": budget or None,
            "verdicts": counts,
            "solver_seconds": round(z3s, 2),
            "functions_encoded": sorted(tracer.seen),
            "functions_targeted": getattr(mod, "FUNCTIONS", []),
            "bounds": getattr(mod, "BOUNDS", ""),
            "known_regions_excluded": sorted(excluded),
            "selftest_cases": selftest_n,
            "data_cases_replayed": extra_n,
            "instances": inst_records,
            "repo": repo_file,
            "problems": problems[:20],
        },
        "assumptions": list(getattr(mod, "STUBS", [])) + ["engine: CrossHair 0.0.110 + z3 (python wheel); patches: "
                                                           + "; ".join(_patches())],
        "wall_s": round(wall, 2),
        "violations": len(violations),
    }
    os.makedirs(EVID, exist_ok=True)
    with open(os.path.join(EVID, prop + ".json"), "w") as fh:
        json.dump(ev, fh, indent=1, default=str)

    print("%s %s: instances=%d confirmed=%d unknown=%d skipped(budget)=%d refuted=%d known-region=%d witnesses ok=%d bad=%d paths=%d z3=%d (%.1fs) wall=%.1fs"
          % (prop, tier, n_inst, counts["confirmed"], counts["unknown"], counts["skipped_budget"], counts["refuted_replayed"],
             counts["refuted_known_region"], counts["witness_ok"], counts["witness_bad"], paths, checks, z3s, wall))
    for path, what in violations:
        print("VIOLATION property=%s replay=%s" % (prop, path))
        print("  " + what)
    if violations:
        return 1
    if problems:
        for p in problems[:30]:
            print("HARNESS-PROBLEM: " + p, file=sys.stderr)
        return 3
    return 0


def _patches():
    from chx import prelude
    return prelude.ENGINE_PATCHES


if __name__ == "__main__":
    sys.exit(main())
