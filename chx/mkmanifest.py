#!/usr/bin/env python3
"""Regenerates /verif/MANIFEST.json from the table below (keeps it schema-valid at all times)."""
import json
import os

ROOT = os.path.dirname(os.path.dirname(os.path.abspath(__file__)))

TECH = "symbolic execution of the real curtsies functions under CrossHair; z3 decides every path condition and the final assertion"

CLAIMED = {
    "C09": {
        "text": "Bounded model checking of the real FmtStr.splice/append: for each fixed number of runs (quick <= 4, "
                "thorough <= 6) and each shape of `new`, z3 proves on every execution path that the result equals the "
                "list splice of the operands for ALL run lengths, start/end values and positions (unbounded integers, "
                "texts abstract). Counterexamples are replayed on plain CPython before being reported.",
        "note": "Trusted: CPython, CrossHair 0.0.110 tracer + z3; the SegStr length-abstract string domain (self-tested "
                "against real str slicing on every run); texts assumed free of ESC/0x9b. More than 6 runs only by "
                "analogy (no run-count-dependent constants in the code).",
        "technique": TECH + "; SegStr LIA string domain, position-function oracle",
        "design": "DESIGN.md section 3 C09",
    },
}

CLAIMED["C06"] = {
    "text": "Bounded model checking of the real FmtStr.__getitem__/normalize_slice/__add__/__radd__/__mul__/join: for each "
            "fixed run structure z3 proves on every path that the result's characters and formatting equal what the same "
            "operation gives on the per-character lists, for ALL run lengths (empty runs included), ALL slice bounds and "
            "indices in Z (and None) and all positions; IndexError exactly outside [-len, len).",
    "note": "Trusted: CPython, CrossHair 0.0.110 + z3, SegStr domain (self-tested), placeholder text for symbolic ints inside "
            "exception messages. Run counts above the stated bounds, repeat counts > 6 and joins of > 3 items are outside.",
    "technique": TECH + "; SegStr LIA string domain, position-function oracle",
    "design": "DESIGN.md section 3 C06",
}

CLAIMED["C01"] = {
    "text": "Bounded model checking of the real Chunk.color_str/FmtStr.__str__: for every attribute dictionary of the tier's "
            "slice of the 59049-element space (thorough: all of it) the solver enumerates the dictionary and proves, for a "
            "text of ANY length, that an independent SGR interpreter fed str(f) draws exactly the text in exactly the "
            "displayed attributes, meets nothing but SGR sequences and ends in the default state; a second lemma does the "
            "same for whole strings of up to 3 runs (composition of runs), which with the first gives any number of runs.",
    "note": "Trusted: CPython, CrossHair + z3, SegStr domain, our SGR interpreter (cross-checked with pyte on every replay). "
            "Texts are assumed free of ESC/0x9b (as the property states). More than 3 runs only through the inductive argument.",
    "technique": TECH + "; SegStr text of symbolic length, solver-enumerated attribute space, SGR-interpreter oracle",
    "design": "DESIGN.md section 3 C01",
}

CLAIMED["C04"] = {
    "text": "Bounded model checking of the real FSArray.__setitem__/__getitem__/fsarray and the row kernel "
            "FmtStr.setslice_with_length: one assignment from an ARBITRARY state satisfying the representation invariant "
            "(rows are FmtStrs no longer than the width) - the inductive step for assignment histories. For each fixed row "
            "structure z3 proves per path, for all widths, column bounds, row lengths, block row lengths and columns "
            "(unbounded integers), that region cells show the block (blank where shorter), other cells are unchanged, "
            "the height grows to the region, no row exceeds the width, reading back returns the cells, and that errors "
            "are raised exactly for the stated reasons and leave every existing cell unchanged.",
    "note": "Trusted: CPython, CrossHair + z3, SegStr domain; slicesize() is replaced by its integer meaning, justified by a "
            "QF_FP lemma proved on every run (|d| <= 2**53). A block row longer than the region with nothing to its right "
            "is left unspecified by the statement: both an error and compositing are accepted there. Negative indices, "
            "open-ended row slices and numpy blocks are outside.",
    "technique": TECH + "; SegStr LIA string domain, inductive step from a symbolic invariant state, QF_FP lemma for slicesize",
    "design": "DESIGN.md section 3 C04",
}

CLAIMED["C14"] = {
    "text": "Bounded model checking of the real parse_args/fmtstr/fmtfuncs/copy_with_new_atts/new_with_atts_removed/"
            "copy_with_new_str/shared_atts: colour numbers range over all integers, style values over both bools, run "
            "lengths over all naturals (empty runs included); spellings, base layouts and operation sequences (length <= 2, "
            "thorough 3) come from catalogues that the solver enumerates completely. Asserted against an independent "
            "re-statement of the specification: exactly the named attributes change, later values override, text and "
            "operands are untouched, spellings agree, bad specifications raise ValueError, shared_atts is sound.",
    "note": "Trusted: CPython, CrossHair + z3, SegStr domain, our spec_parse oracle. A name valid only up to letter case may be "
            "accepted or rejected with ValueError (both allowed). Attribute dictionaries are compared by what they display "
            "(False == absent). Non-catalogue names are outside; value types other than str/int/bool are outside.",
    "technique": TECH + "; solver-enumerated catalogues, symbolic colour numbers / bools / run lengths",
    "design": "DESIGN.md section 3 C14",
}

CLAIMED["C03"] = {
    "text": "Bounded model checking of the real events.get_key (with _key_name, decodable, could_be_unfinished_*) against "
            "the LIVE key tables: n symbolic bytes (all 256**n strings, n up to MAX_KEYPRESS_SIZE+1) driven incrementally "
            "exactly as Input.find_key does, in utf-8/ascii/latin-1, with and without buffered bytes, all three naming "
            "modes per path. z3 proves per path: bytes naming returns exactly the bytes; no failure on any prefix of a "
            "valid stream; more input is requested only while the bytes can still grow into a table sequence or a "
            "character, and always while they still can and bytes are buffered; table sequences come back under their "
            "table name; characters as themselves; no pending state as long as the longest sequence. Every table entry "
            "is additionally replayed concretely in every encoding.",
    "note": "Trusted: CPython, CrossHair + z3 and its codec models (violations are replayed on the real codecs), the "
            "SymTable wrapper (self-tested against the dicts), our UTF-8 table (self-tested against CPython's codec). "
            "quick restricts utf-8 strings of length 5..7 to members/prefixes of the tables. Known finding "
            "C03-prefix-then-nonascii is excluded as a region while its witness still fails.",
    "technique": TECH + "; SymTable domain (table membership as one z3 disjunction), oracle predicates as z3 terms over the bytes",
    "design": "DESIGN.md section 3 C03",
}
CLAIMED["C20"] = {
    "text": "(a) the C03 decoder instances assert on every path that the three naming modes return None together, raise "
            "the same exception together and bytes naming returns exactly the bytes; (b) one z3 query per length shows no "
            "byte string has a curses name without a curtsies name; (c) symbolic execution of the real "
            "KeyMap.__getitem__ over symbolic key names: every name returned for a valid configuration key is a value of "
            "the live CURTSIES_NAMES (a name the decoder produces, by C03), '' maps to (), invalid keys raise KeyError.",
    "note": "Trusted as C03. Valid configuration names: C-<a..z>, M-<printable non-space ASCII>, F1..F12, SPECIALS. "
            "quick: decoder instances for utf-8 n <= 3 only; characters below U+0100; F0..F30.",
    "technique": TECH + "; SymTable domain; direct z3 query over the live tables",
    "design": "DESIGN.md section 3 C20",
}

CLAIMED["C16"] = {
    "text": "Bounded model checking of the real linesplit: the input (plain str or FmtStr of up to 3 runs) is a symbolic "
            "string whose every character ranges over {a, b, space, tab, newline, U+00A0, U+3000}, total length <= 4 "
            "(thorough 6), plus plain strings over {a, space} up to length 8 (thorough 10); columns 1..4. On every path z3 "
            "decides the comparison with a greedy first-fit reference wrap computed on character indices: line lengths, "
            "word order, per-character formatting, single joining spaces whose formatting is bounded by the replaced "
            "whitespace, no leading/trailing whitespace, words moved only when they do not fit, long words chopped.",
    "note": "Trusted: CPython, CrossHair + z3 and its regex model (violations replayed with CPython's re), the reference "
            "wrap. Longer texts and other whitespace characters are outside.",
    "technique": TECH + "; native symbolic strings (characters symbolic), reference-model oracle",
    "design": "DESIGN.md section 3 C16",
}
CLAIMED["C19"] = {
    "text": "Bounded model checking of the real FmtStr.__eq__/__hash__/__repr__ (and Chunk.repr_part): pairs of FmtStrs of "
            "0..2 runs with symbolic texts (length <= 1 quick / 2 thorough over {a, b}) over a catalogue of 20 layout pairs "
            "that includes same-text/different-formatting, same-display/different-run-boundaries, False-vs-absent and "
            "empty runs; plain str operands (symbolic, and terminal strings of a second FmtStr): ==, != and hash are "
            "asserted to follow the terminal strings in both operand orders. repr: for every attribute pattern of the "
            "tier's set and every text of a catalogue, eval(repr(f)) in the fmtfuncs namespace shows the same cells.",
    "note": "Trusted: CPython, CrossHair + z3; str(f) itself is C01's subject (assume-guarantee). set/dict membership is "
            "exercised on the real containers only in the concrete replays. Copy reducers for FmtStr/Chunk are an engine patch.",
    "technique": TECH + "; native symbolic strings, solver-enumerated layout catalogue",
    "design": "DESIGN.md section 3 C19",
}

CLAIMED["C10"] = {
    "text": "Bounded model checking of the real Chunk.width/FmtStr.width/width_at_offset/width_aware_slice (method and "
            "module function)/interval_overlap: 1..3 runs, total length <= 4 (thorough 6); the width class of every "
            "character is a symbolic selector the solver enumerates, the column range a <= b and the offset n are symbolic "
            "integers; z3 decides on every path the comparison with the column-expansion oracle (width, width at offset, "
            "the cut: characters wholly inside keep formatting, halved double-width characters become a space with that "
            "formatting, result width = requested columns that exist). interval_overlap is proved equal to "
            "max(0, min(b,y)-max(a,x)) for ALL integers a<=b, x<=y (its 'assert False' unreachable).",
    "note": "Trusted: CPython, CrossHair + z3, the width oracle standing in for cwcwidth (validated on the alphabet every "
            "run; replays use cwcwidth), one representative character per class. Placement of zero-width characters in "
            "the slice is only checked loosely. Longer texts / other characters outside.",
    "technique": TECH + "; width-oracle stub, solver-enumerated width classes, symbolic column arithmetic",
    "design": "DESIGN.md section 3 C10",
}
CLAIMED["C11"] = {
    "text": "Bounded model checking of the real width_aware_splitlines/ChunkSplitter: 1..3 runs, total length <= 4 (thorough "
            "6), width classes enumerated by the solver, columns symbolic (2..4, thorough 2..6), layouts with distinct and "
            "with equal adjacent runs. Per path: no line wider than columns, all but the last exactly columns, none "
            "without characters, and the concatenated lines equal the input cells with single padding spaces (formatted "
            "like the following double-width character) exactly where such a character would straddle a boundary.",
    "note": "Trusted as C10. Which line a zero-width character lands on is not constrained.",
    "technique": TECH + "; width-oracle stub, solver-enumerated width classes, symbolic columns",
    "design": "DESIGN.md section 3 C11",
}

CLAIMED["C05"] = {
    "text": "Bounded model checking of the real FmtStr.from_str/parse/peel_off_esc_code/token_type/parse_args: (a) round "
            "trip from_str(str(f)) with SYMBOLIC run texts (any code point but ESC/0x9b: newline, CR, '[', digits, 'm' "
            "included) for runs with at most one displayed attribute (quick) / all 14 reduced patterns (thorough), and "
            "with catalogue texts for 1..3 runs over the full reduced pattern set; (b) grammar strings "
            "(text | ESC[p1;..;pn m)* - one sequence with <= 1 parameter and symbolic text holes, and one sequence x 2 "
            "parameters (all 22x22 supported codes), two and three sequences over a covering parameter set with catalogue "
            "holes - compared per character with an independent SGR state machine.",
    "note": "Trusted: CPython, CrossHair + z3 and its regex model (engine patch for groupdict; violations are replayed with "
            "CPython's re). The regex model costs ~1 s per path on strings with several escape sequences, so richer "
            "structures use catalogue texts (class representatives) enumerated by the solver instead of symbolic "
            "characters; quick samples them deterministically per VERIF_SEED.",
    "technique": TECH + "; native symbolic strings for short inputs, solver-enumerated catalogues for structure",
    "design": "DESIGN.md section 3 C05",
}
CLAIMED["C17"] = {
    "text": "Bounded model checking of the real fmtstr/from_str/remove_ansi/parse chain on arbitrary strings: every string of "
            "length <= 3 over 8 character classes, length 4 starting with ESC over 7 classes (thorough: length <= 4 over 8, "
            "<= 3 over 14, 5-6 with ESC[ prefix), where the class of each position is enumerated by the solver and the "
            "character is SYMBOLIC within its class; plus structured words (text, one CSI with numeric parameters, text) "
            "and real-world samples with symbolic text holes. Asserted: no exception; ESC-free input verbatim and "
            "unformatted; result text is a subsequence of the input that keeps every character outside escape-like "
            "regions (independent ECMA-48 scanner); exact removal for ordinary numeric CSI sequences; fmtstr and from_str agree.",
    "note": "Trusted: CPython, CrossHair + z3 and its regex model; the scanner. Inside malformed escape-like regions "
            "(truncated, private, 8-bit CSI, two-byte escapes) characters may be kept or removed.",
    "technique": TECH + "; class-selector + symbolic-offset characters, ECMA-48 scanner oracle",
    "design": "DESIGN.md section 3 C17",
}

CLAIMED["C15"] = {
    "text": "Bounded model checking of the real FmtStr.split / splitlines / ljust / rjust / join and the __getattr__ "
            "delegation for a 50-entry catalogue of method+argument combinations (25 delegated str methods): f has 1..2 "
            "runs of SYMBOLIC text (total <= 3, thorough 4, characters symbolic over the instance's alphabet), widths "
            "symbolic; for methods whose CrossHair str model is too slow the texts are catalogue entries. On every path "
            "the result is compared with the same method on the plain text; pieces of split/splitlines must equal the "
            "corresponding slice of f per character; other text results must carry every attribute all characters share "
            "and none that no character had; a three-step history (use the parent, take a piece, call a method on the "
            "piece) and join against str.join are included.",
    "note": "Trusted: CPython, CrossHair + z3 and its models of the str methods and re (violations are replayed on CPython). "
            "split() without separator and maxsplit are outside (the statement says explicit separator or regex).",
    "technique": TECH + "; native symbolic strings, per-method differential oracle against str",
    "design": "DESIGN.md section 3 C15",
}

CLAIMED["C13"] = {
    "text": "Bounded model checking over PROGRAMS: straight-line programs of length 1 (all 21 operations), 2 (quick: 80 "
            "op-code pairs chosen by VERIF_SEED, thorough: all 441) and 3 (thorough: 300 seeded triples) over a pool of "
            "FmtStr values built from the whole public operation set; every operand (pool indices, bounds, counts) and "
            "the observation choice before every step (which memoised views of every pool value are read) is a symbolic "
            "integer the solver enumerates exhaustively. After the program every value ever created must still have "
            "exactly the runs it was born with, and its memoised views (s, len, width, str, repr, cells, shared "
            "attributes) must equal those of a fresh FmtStr built from the same runs. In-place edits (item assignment, "
            "every mutating dict method of a run's attributes) must raise and change nothing.",
    "note": "Trusted: CPython, CrossHair + z3 for the exhaustive operand enumeration; once the operands of a path are "
            "realised the real operations run on concrete values (concrete representative texts with narrow, double-width, "
            "combining, newline and separator characters; real cwcwidth). Whether each operation's RESULT is right is the "
            "subject of the other properties; operations that raise on some operands are skipped here.",
    "technique": TECH + "; programs as symbolic input (op-code tuples x solver-enumerated operands and observation masks)",
    "design": "DESIGN.md section 3 C13",
}

CLAIMED["C18"] = {
    "text": "Bounded model checking of the real CursorAwareWindow.get_cursor_position and get_cursor_vertical_diff: (a) a "
            "scripted in_stream delivers extra + CSI + row;col R + trailing, where every character of `extra` (0..2, thorough "
            "3) has a solver-enumerated class {ESC, '[', 0x9b, digit, ';', 'R', letter, newline/CR} and is symbolic within "
            "it, both CSI forms, four literal reports, trailing input, reads failing with OSError first, with and without "
            "callback: the returned (row-1, col-1), the bytes handed to extra_bytes_callback (exactly `extra`, once), "
            "ValueError exactly when bytes precede the report and there is no callback, and the reader position (nothing "
            "after the report consumed) are asserted. (b) conservation: top_usable_row, last row and up to three reported "
            "rows are symbolic integers, a nested call may arrive during any query: change of top_usable_row + returned "
            "value == observed movement, nested calls return 0, queries repeat exactly while interrupted.",
    "note": "Trusted: CPython, CrossHair + z3 and its regex model (violations replayed with CPython's re). `extra` containing "
            "a complete look-alike report is excluded (it IS a report). (b) stubs get_cursor_position (part (a) covers it); "
            "|movement| per query bounded (quick 12/4/2, thorough 12/12/6) because the real clamping loops run |dy| times.",
    "technique": TECH + "; class-selector + symbolic-offset characters, scripted stream with fault schedule, symbolic integer state",
    "design": "DESIGN.md section 3 C18",
}

CLAIMED["C02"] = {
    "text": "Bounded model checking of the real FullscreenWindow.render_to_terminal (with on_terminal_size_change, the row "
            "cache and FmtStr.__eq__) against a reference terminal model with xterm pending-wrap semantics, as an inductive "
            "step: from an ARBITRARY junk screen a fresh window's render(A) must show A; from the state that left - "
            "optionally after a resize to a different size that leaves arbitrary junk - render(B) must show B: every cell "
            "(character and formatting), blanks elsewhere, cursor on cursor_pos, cursor visibility, never a scroll. Every "
            "row character and junk cell is symbolic, so the cache comparison `line == cached` forks symbolically; shapes "
            "(sizes, heights 0..h+1, row lengths 0..w+1, str / 1-run / 2-run rows, list or FSArray) and the cursor target "
            "are enumerated by the solver.",
    "note": "Trusted: CPython, CrossHair + z3, the terminal model (replays are judged by the pyte emulator on the real byte "
            "stream), C01 for the content of a row's terminal string (rows reach the model as FmtStr through the public "
            "fmtstr_to_stdout_xform hook), the real blessed capability strings (move() strings tabulated once). Terminal "
            "sizes up to 2x2 (+ resize targets up to 2x3) quick, 3x3 thorough; wide characters outside (the statement says "
            "single-column characters).",
    "technique": TECH + "; terminal-model environment stub, inductive step from a symbolic junk state",
    "design": "DESIGN.md section 3 C02",
}

CLAIMED["C07"] = {
    "text": "Bounded model checking of the real CursorAwareWindow.__enter__/render_to_terminal/__exit__ (with "
            "get_cursor_position, scroll_down and the row cache) against a reference terminal model with scrollback: a "
            "terminal that already holds output (0 or 2 scrollback lines, marker lines above the cursor on any row), enter, "
            "one or two renders of arrays of height 0..h+2, leave. After EVERY render: the whole tape (scrollback + screen) "
            "above the window's first row is unchanged, the array's rows follow it, everything below is blank, the model's "
            "scroll counter grew by exactly the rows that did not fit, the return value is the number of array rows pushed "
            "off the top, top_usable_row is updated consistently, the cursor is on the designated cell; after leaving, rows "
            "above the cursor are unchanged, nothing below remains, the cursor is visible. Row characters are symbolic (the "
            "cache comparison forks symbolically); shapes are enumerated by the solver; the second render starts from the "
            "state the first left (inductive step).",
    "note": "Trusted: CPython, CrossHair + z3, the terminal model (replays are judged by the pyte emulator on the real bytes), "
            "C01 for row strings, real blessed strings, Cbreak stubbed (C12's subject). Rows wider than the terminal and "
            "terminal resizes during the session are outside; sizes 2x2, 3x2 (thorough + 3x3, 4x2).",
    "technique": TECH + "; terminal-model environment stub with scrollback, invariant asserted after every step",
    "design": "DESIGN.md section 3 C07",
}

CLAIMED["C12"] = {
    "text": "Bounded model checking over crash points and configurations: the real context managers (Input with every "
            "sigint_event/disable_terminal_start_stop setting, Input nested in Input, FullscreenWindow and CursorAwareWindow "
            "with every hide_cursor/keep_last_line setting, alone and inside an Input, Cbreak and its Termmode, Nonblocking, "
            "Termmode) run with real `with` blocks against an OS model (tty attributes, status flags, SIGINT disposition, "
            "wake-up fd, fd table, pipes, select, clock) and the terminal model. The scenario - initial tty / flag / handler "
            "/ wake-up state, a body of up to two operations (requests, triggers, SIGINT during a blocked request, render) "
            "and the crash point (every model call the body makes, raising an ordinary exception or KeyboardInterrupt) - is "
            "a tuple of selectors enumerated exhaustively by the solver. After leaving: tty attributes, status flags, SIGINT "
            "handler, wake-up fd and fd table (3 repetitions) equal the snapshot taken before entering, the stream is never "
            "left non-blocking after a request, the cursor is visible, the alternate screen is left and the main screen untouched.",
    "note": "Trusted: CPython, CrossHair + z3 (exhaustive enumeration of the scenario selectors; a realised scenario runs on "
            "concrete values), the OS and terminal models (contract models of termios/tty/fcntl/signal/os/select; replays run "
            "on the same models). Outside: non-main threads, SIGINT between two bytecodes of curtsies' own enter/exit steps, "
            "the real tty driver. Known finding C12-threadsafe-trigger-pipe-leak excluded while its witness still fails.",
    "technique": TECH + "; OS-model and terminal-model environment stubs, crash point and configuration as symbolic selectors",
    "design": "DESIGN.md section 3 C12",
}

CLAIMED["C08"] = {
    "text": "Bounded model checking over histories and schedules: the real Input (send/_send/find_key, "
            "_wait_for_read_ready_or_timeout, _nonblocking_read, unget_bytes, the three trigger factories, "
            "ReplacedSigIntHandler, Nonblocking, get_key) runs against the OS model; a history of up to 3 steps (thorough 4) "
            "over 28 step kinds - arrivals from a chunk catalogue (ASCII, 2/3/4-byte characters, escape sequences whole and "
            "split, bursts of 1031 / 1200 bytes whose READ_SIZE boundary falls inside a character / sequence), unget_bytes, "
            "event / scheduled (past, future, equal times) / thread-safe triggers, clock ticks, requests with timeout 0 / "
            "small / None, and arrivals, thread-safe callbacks and SIGINT scheduled INSIDE the next blocked request - is a "
            "tuple of selectors enumerated by the solver (quick: 250 seeded histories per first step and configuration; "
            "thorough: all), for paste_threshold default / 1 / None and sigint_event on/off. A reference queue model checks: "
            "bytes returned == bytes arrived (nothing lost, duplicated or reordered), per-trigger order, scheduled events "
            "never early and in time order, SIGINT accounted for, no None while something is deliverable or before the "
            "timeout, no wait while something is deliverable, paste events hold exactly the burst's keypresses.",
    "note": "Trusted: CPython, CrossHair + z3 (exhaustive enumeration of the history selectors; a realised history runs on "
            "concrete values), the OS model (select/read/pipes/clock contract; the clock moves 1 ms past a deadline on "
            "timeout). Outside: true preemption between bytecodes, the kernel's tty/pipe semantics beyond the model, "
            "characters split by an arrival (only READ_SIZE splits them). Shares the known finding C03-prefix-then-nonascii.",
    "technique": TECH + "; OS-model environment stub, histories and schedules as symbolic selectors, reference queue oracle",
    "design": "DESIGN.md section 3 C08",
}

NOT_YET = {}

ALL = ["C%02d" % i for i in range(1, 21)]


def main():
    checks = []
    for pid in ALL:
        if pid not in CLAIMED:
            continue
        c = CLAIMED[pid]
        checks.append({
            "property_id": pid,
            "quick_cmd": "./check %s quick" % pid,
            "thorough_cmd": "./check %s thorough" % pid,
            "evidence_file": "/verif/evidence/%s.json" % pid,
            "replay_cmd_template": "./check %s --replay {path}" % pid,
            "engine": "crosshair-z3",
            "level_claimed": {"category": "model_checking", "text": c["text"], "design_ref": c["design"]},
            "level_note": c["note"],
            "technique": c["technique"],
        })
    na = []
    for pid in ALL:
        if pid not in CLAIMED:
            na.append({"property_id": pid, "reason": NOT_YET.get(
                pid, "check not built yet in this round (planned with the same technique, see DESIGN.md section 3); nothing is claimed")})
    man = {
        "version": 1,
        "setup_cmd": "./chx/env.sh",
        "hooks": {
            "guard": "CURTSIES_VERIF",
            "enable": "no source hooks: harnesses substitute module globals of the imported curtsies modules from the outside; "
                      "curtsies is the editable install of /repo, imported afresh by every worker",
            "baseline_off_cmd": "cd /repo && /venv/bin/python -m pytest -ra -q -p no:cacheprovider --timeout=900 --continue-on-collection-errors",
            "source_commits": [],
            "add_only": True,
        },
        "engines": [{
            "name": "crosshair-z3", "path": "/verif/chx",
            "serves_properties": sorted(CLAIMED),
            "kind_free_text": "CrossHair 0.0.110 symbolic execution of the live /repo modules with z3 as deciding solver; custom "
                              "symbolic domains (SegStr, SymTable, terminal/OS models); concrete replay of every counterexample",
        }],
        "checks": checks,
        "not_applicable": na,
        "notes": "exit 0 held / 1 VIOLATION / 3 harness or engine problem (never a VIOLATION). Known findings and fixes: chx/known_findings.json. The thorough tier runs the quick instances first and then the deeper ones under a wall budget (720 s per property, VERIF_BUDGET_S overrides); instances not started by then are recorded as skipped in the evidence.",
    }
    with open(os.path.join(ROOT, "MANIFEST.json"), "w") as fh:
        json.dump(man, fh, indent=1)
    print("claimed:", sorted(CLAIMED), "not claimed:", [n["property_id"] for n in na])


if __name__ == "__main__":
    main()
