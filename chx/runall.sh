#!/bin/sh
# run every claimed check once (tier $1, default quick) and print one line each
TIER=${1:-quick}
cd /verif
for P in $(python3 -c "import json; print(' '.join(c['property_id'] for c in json.load(open('MANIFEST.json'))['checks']))"); do
  S=$(date +%s)
  ./check $P $TIER > /tmp/runall-$P.out 2>&1; RC=$?
  E=$(date +%s)
  echo "$P rc=$RC $((E-S))s  $(grep "^$P $TIER" /tmp/runall-$P.out | cut -c1-200)"
done
